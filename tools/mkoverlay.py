#!/usr/bin/env python3
"""Generates the GOROOT overlay that puts Go map iteration order behind a seam.

usage: mkoverlay.py <GOROOT/src> <outdir>   -> writes <outdir>/goroot/... and <outdir>/overlay.json

internal/runtime/maps: every map seed and iterator offset comes from vrand(), which is a pure function of
the linknamed variable VerifMapRand when that is non-zero (0 = stock randomness). growToTable re-seeds from
vrand() so that compiler-seeded stack maps become deterministic once they outgrow 8 entries, and every
caller recomputes its in-flight hash afterwards. runtime/alg.go: fixed hash key schedule.
"""
import json, os, re, sys

src, out = sys.argv[1], sys.argv[2]
M = os.path.join(src, "internal/runtime/maps")
dst = os.path.join(out, "goroot", "maps")
os.makedirs(dst, exist_ok=True)
os.makedirs(os.path.join(out, "goroot", "runtime"), exist_ok=True)
files = ["map.go", "table.go", "runtime.go", "runtime_fast32.go", "runtime_fast64.go", "runtime_faststr.go"]
replace = {}
grow_sites = 0
rand_sites = 0
for f in files:
    lines = open(os.path.join(M, f)).read().split("\n")
    res, last = [], None
    for ln in lines:
        if f in ("map.go", "table.go"):
            new = re.sub(r"\brand\(\)", "vrand()", ln)
            if new != ln:
                rand_sites += 1
            ln = new
        m = re.match(r"\s*hash := (typ\.Hasher\(.*m\.seed\))\s*$", ln)
        if m:
            last = m.group(1)
        res.append(ln)
        if ln.strip() == "m.growToTable(typ)":
            assert last is not None, (f, ln)
            ind = ln[: len(ln) - len(ln.lstrip())]
            res += [ind + "if VerifMapRand != 0 {", ind + "\thash = " + last, ind + "}"]
            grow_sites += 1
        if ln.startswith("func (m *Map) growToTable(typ *abi.MapType) {"):
            res += ["\tif VerifMapRand != 0 {", "\t\tm.seed = uintptr(vrand())", "\t}"]
    open(os.path.join(dst, f), "w").write("\n".join(res))
    replace[os.path.join(M, f)] = os.path.join(dst, f)
assert grow_sites == 7, grow_sites
assert rand_sites >= 6, rand_sites

open(os.path.join(dst, "verif_rand.go"), "w").write('''package maps

import _ "unsafe"

// VerifMapRand: 0 = stock randomness; otherwise every map seed and iterator offset is a pure
// function of this value (set by the simulation harness through go:linkname).
//
//go:linkname VerifMapRand
var VerifMapRand uint64

func vrand() uint64 {
	v := VerifMapRand
	if v == 0 {
		return rand()
	}
	v += 0x9E3779B97F4A7C15
	v = (v ^ (v >> 30)) * 0xBF58476D1CE4E5B9
	v = (v ^ (v >> 27)) * 0x94D049BB133111EB
	return v ^ (v >> 31)
}
''')
replace[os.path.join(M, "verif_rand.go")] = os.path.join(dst, "verif_rand.go")

alg = open(os.path.join(src, "runtime/alg.go")).read()
assert alg.count("bootstrapRand()") >= 2
alg = alg.replace("hashkey[i] = uintptr(bootstrapRand())", "hashkey[i] = uintptr(uint64(i+1) * 0x9E3779B97F4A7C15)")
alg = alg.replace("key[i] = bootstrapRand()", "key[i] = uint64(i+1) * 0x9E3779B97F4A7C15")
seg = alg.split("func alginit")[1].split("// Note: These routines")[0]
assert "bootstrapRand()" not in seg
p = os.path.join(out, "goroot", "runtime", "alg.go")
open(p, "w").write(alg)
replace[os.path.join(src, "runtime/alg.go")] = p

json.dump({"Replace": replace}, open(os.path.join(out, "overlay.json"), "w"), indent=1)
print("overlay ok:", len(replace), "files")
