#!/bin/bash
# usage: tools/revert_probe.sh <fix-commit> <PROP> <corpus-name>
# Temporarily reverts a "fix:" commit in /repo's working tree, runs the quick check (which must report
# the violation again), stores the minimised replay as a regression-corpus entry, and restores /repo.
set -u
commit=$1; prop=$2; name=$3
cd /verif; export KAISIM_EVIDENCE_DIR=/tmp/seeded-evidence
git -C /repo diff --quiet && git -C /repo diff --cached --quiet || { echo "repo not clean"; exit 2; }
git -C /repo revert --no-commit "$commit" >/dev/null || { git -C /repo revert --abort; exit 2; }
out=$(KAISIM_QUICK_S=${KAISIM_QUICK_S:-30} ./check "$prop" quick 2>&1); rc=$?
git -C /repo revert --abort 2>/dev/null || git -C /repo reset -q --hard HEAD
echo "$out" | tail -8
echo "exit=$rc"
rp=$(echo "$out" | grep -o 'replay=[^ ]*' | head -1 | cut -d= -f2)
if [ "$rc" = 1 ] && [ -n "$rp" ] && [[ "$rp" != */corpus/* ]]; then
  mkdir -p corpus/$prop; cp "$rp" corpus/$prop/$name.json; echo "stored corpus/$prop/$name.json"
  # on the restored tree the entry must be quiet; a minimised script may end before the system settles and then
  # trips end-of-run rules: such an entry only counts its recorded class
  ./check --build-only >/dev/null 2>&1
  if ! KAISIM_QUICK_S=2 KAISIM_WORKERS=1 ./check "$prop" quick 2>&1 | grep -q "corpus: .* 0 violating"; then
    python3 - "corpus/$prop/$name.json" <<'PY'
import json,sys
d=json.load(open(sys.argv[1])); d["corpus_class_only"]=True; json.dump(d,open(sys.argv[1],"w"),indent=1)
PY
    echo "marked class-only"
  fi
fi
