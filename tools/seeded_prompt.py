#!/usr/bin/env python3
"""usage: tools/seeded_prompt.py <PROP> <worktree-id> ["focus clause"]
Prints the brief handed to a fresh sub-agent: the property text, its scratch worktree, and the deliverables.
Nothing from /verif other than the property text goes into it."""
import json, sys
prop, wid = sys.argv[1], sys.argv[2]
focus = sys.argv[3] if len(sys.argv) > 3 else ""
p = next(json.loads(l) for l in open('/verif/properties.jsonl') if json.loads(l)['id'] == prop)
print(f"""You are helping to test a verification effort for NVIDIA/KAI-Scheduler (a Kubernetes batch scheduler for GPU workloads, written in Go).
Your job: produce ONE realistic source change ("seeded defect") that breaks the semantic property below while the repository
still compiles and its existing unit tests still pass, plus a demonstration that fails with the change and passes without it.

Work ONLY inside your own scratch git worktree: /tmp/wt/{wid}  (a checkout of the repository at its current HEAD).
Do NOT read or write /verif, /repo, /root/.vp or any other directory under /tmp/wt — your change must be independent of anything there.
Never use `git stash` (the stash is shared between all worktrees of this repository and other people use them): to set your
change aside use `git diff > /tmp/wt/{wid}/my.diff; git checkout -- .` and later `git apply /tmp/wt/{wid}/my.diff`.
The sandbox is offline. For every go command: export GOFLAGS=-mod=mod GOPROXY=off   (the default `go` toolchain works in the worktree).

## The property ({prop}: {p['title']})

{p['statement']}
""")
if focus:
    print(f"Focus your change on this part of the property (others have already been tried): {focus}\n")
print(f"""## What kind of change

* It must look like something a developer could plausibly commit (a refactor gone subtly wrong, an optimisation, a reordered
  step, an off-by-one, a forgotten case, a wrong comparison, state that is cached or reused too long ...), not sabotage with
  an obviously-named flag. Small: ideally 1-15 changed lines in non-test files under pkg/ or cmd/.
* It must need something SPECIFIC to manifest: a particular interleaving, a failure or crash at a particular point, a
  multi-step sequence of operations or scheduling cycles, an unusual but legal input, or two cooperating sites that each look
  fine alone. Not something ordinary use would expose at once, and not something an existing unit test catches.
* The code must still compile (`go build ./...`) and the existing tests of ./pkg/... and ./cmd/... must still pass
  (packages named env-tests / integration_tests / queuecontroller/controllers need binaries that are not available offline and
  fail on the untouched tree as well: ignore those). Do not edit or delete existing tests.
* Do not touch files carrying the build tag `verif` and do not change exported signatures used across packages unless you fix
  all callers.

## Deliverables (all inside /tmp/wt/{wid}/SEEDED/)

1. `SEEDED/patch.diff` — output of `git diff` for your change to non-test files only (must apply with `git apply` on a clean
   checkout of HEAD).
2. `SEEDED/demo/<package path>/zz_seeded_demo_test.go` — a Go test file (test function names starting with `TestSeededDemo`)
   meant to be copied into `<package path>/` of the worktree (e.g. SEEDED/demo/pkg/scheduler/actions/zz_seeded_demo_test.go →
   pkg/scheduler/actions/). It demonstrates the broken property against the real code: it must PASS on the untouched tree and
   FAIL with your change. Use the repository's own test helpers where convenient. The demo should assert the property (an
   observable consequence), not the implementation detail you changed.
3. `SEEDED/NOTES.md` — which clause is broken, why existing tests do not notice, exactly what is needed for it to manifest,
   and the commands you ran with their results.

Before you finish, verify all of this yourself:
  a. clean tree + demo copied in: `go test -vet=off -count=1 -run TestSeededDemo ./<package path>/` passes;
  b. with the change applied: the same command fails;
  c. with the change applied and the demo removed: `go build ./...` and `go test -vet=off -count=1 -p 4 ./pkg/... ./cmd/...` show no
     new failures compared to the untouched tree.
Leave the worktree with your change applied (demo file may stay in SEEDED/ only). In your final message give a 3-5 line summary:
the file/function changed, what breaks, what is needed to trigger it.""")
