#!/usr/bin/env python3
"""Prints the markdown table of seeded changes and detection results from seeded/*/meta.json."""
import json, glob, os
print("| seeded change | property | summary | detection |")
print("|---|---|---|---|")
for d in sorted(glob.glob("/verif/seeded/*/meta.json")):
    m = json.load(open(d))
    det = "; ".join(f"{k}: {v}" for k, v in m.get("detection", {}).items()) or "(not run yet)"
    print(f"| `{os.path.basename(os.path.dirname(d))}` | {m['property']} | {m['summary']} | {det} |")
