#!/bin/bash
# usage: tools/run_seeded.sh <slug> <PROP> [<PROP>...]   (env KAISIM_QUICK_S)
# Applies /verif/seeded/<slug>/patch.diff to /repo's working tree, runs the quick checks, restores /repo.
slug=$1; shift
cd /verif
export KAISIM_EVIDENCE_DIR=/tmp/seeded-evidence
git -C /repo diff --quiet || { echo "repo not clean"; exit 2; }
git -C /repo apply /verif/seeded/$slug/patch.diff || { echo "APPLY-FAILED $slug"; exit 2; }
for p in "$@"; do
  out=$(./check $p quick 2>&1); rc=$?
  echo "== $slug vs $p: exit=$rc"
  echo "$out" | grep "violation class\|VIOLATION\|KNOWN-FINDING\|runs=" | head -6
done
git -C /repo checkout -- .
git -C /repo status --short | grep -v '^??' 
