#!/bin/bash
# usage: tools/sweep.sh [quick|thorough] [IDs...]  -> runs the registered checks one after another, prints exit codes
tier=${1:-quick}; shift
ids=${@:-$(python3 -c "import json;print(' '.join(c['property_id'] for c in json.load(open('/verif/MANIFEST.json'))['checks']))")}
cd "$(dirname "$0")/.."
for p in $ids; do
  out=$(./check $p $tier 2>&1); rc=$?
  echo "$p exit=$rc $(echo "$out" | grep -c '^KNOWN-FINDING') known; $(echo "$out" | grep 'runs=' | tail -1 | cut -c1-110)"
  if [ $rc -ne 0 ]; then echo "$out" | grep -v '^KNOWN' | tail -6 | cut -c1-400; fi
done
