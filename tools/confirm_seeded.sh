#!/bin/bash
# usage: confirm_seeded.sh <ID> ; works in the sub-agent's scratch worktree /tmp/wt/<ID>
# confirms: patch applies on the original tree, demo passes without / fails with the patch,
# the package tree compiles and the existing tests (pkg/..., cmd/...) still pass with the patch.
ID=$1; W=/tmp/wt/$ID; OUT=/tmp/wt/$ID.confirm.txt
export GOFLAGS=-mod=mod GOPROXY=off
cd $W || exit 2
exec > $OUT 2>&1
set -x
demo=$(cd SEEDED/demo && find . -name 'zz_seeded_demo_test.go' | head -1)
pkgdir=$(dirname $demo)
git checkout -- . || exit 2
rm -f $pkgdir/zz_seeded_demo_test.go
git apply --check SEEDED/patch.diff || { echo "RESULT patch-does-not-apply"; exit 1; }
cp SEEDED/demo/$demo $pkgdir/zz_seeded_demo_test.go
go test -vet=off -count=1 -run 'TestSeededDemo|Seeded' ./$pkgdir/ > /tmp/wt/$ID.demo_without.txt 2>&1; r1=$?
git apply SEEDED/patch.diff
go test -vet=off -count=1 -run 'TestSeededDemo|Seeded' ./$pkgdir/ > /tmp/wt/$ID.demo_with.txt 2>&1; r2=$?
rm -f $pkgdir/zz_seeded_demo_test.go
mv SEEDED /tmp/wt/$ID.SEEDED.tmp
go build ./... ; rb=$?
go test -vet=off -count=1 -p 4 ./pkg/... ./cmd/... 2>&1 | grep -v "^ok\|no test files" > /tmp/wt/$ID.suite.txt
mv /tmp/wt/$ID.SEEDED.tmp SEEDED
fails=$(grep "^FAIL\s" /tmp/wt/$ID.suite.txt | grep -v "env-tests\|integration_tests\|queuecontroller/controllers" | wc -l)
echo "RESULT demo_without_exit=$r1 demo_with_exit=$r2 build=$rb new_suite_failures=$fails"
