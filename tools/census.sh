#!/bin/bash
# usage: tools/census.sh <PROP> <seed> <seconds> [ENV=VAL...]  -> runs one worker in census mode (all violation classes counted, none stops the run)
prop=$1; seed=$2; secs=$3; shift 3
d=/tmp/census-$prop-$seed; rm -rf $d; mkdir -p $d; cd $d
env "$@" KAISIM_PROP=$prop KAISIM_SEED=$seed KAISIM_BUDGET_S=$secs KAISIM_OUT=$d/w.json KAISIM_REPLAY_DIR=$d KAISIM_KNOWN=/verif/known_findings.json KAISIM_CENSUS=1 GOMAXPROCS=2 /verif/.build/kaisim.test -test.run '^TestProp$' -test.timeout 2h > $d/log 2>&1
tail -3 $d/log
jq '{runs, non_trivial, probes, faults_fired, census, census_examples}' $d/w.json
