#!/usr/bin/env python3
import json,sys
r=json.load(open(sys.argv[1]))
print(r.get('class'), '::', r.get('detail','')[:1500])
s=r['script']
print('config:', json.dumps(s['config']))
for n in s['world']['nodes']: print(' node', json.dumps(n))
for q in s['world']['queues']: print(' queue', json.dumps(q))
for t in s['world'].get('topologies') or []: print(' topo', json.dumps(t))
for w in s['world']['workloads']:
    w=dict(w); pods=w.pop('pods'); print(' wl', json.dumps(w))
    for p in pods: print('     pod', json.dumps(p))
print('ops:', ' '.join(o['kind']+(':'+o['arg'] if o.get('arg') else '')+(':'+str(o['n']) if o.get('n') else '') for o in s['ops']))
print('faults:', s.get('faults'), 'bind_fail:', s.get('bind_fail'))
