#!/usr/bin/env python3
"""usage: tools/import_seeded.py <worktree-id> <slug> <property> "<summary>"
Copies a confirmed sub-agent change from /tmp/wt/<id>/SEEDED into /verif/seeded/<slug>/."""
import json, os, shutil, sys, re
wid, slug, prop, summary = sys.argv[1:5]
src = f"/tmp/wt/{wid}/SEEDED"
dst = f"/verif/seeded/{slug}"
os.makedirs(dst, exist_ok=True)
shutil.copy(f"{src}/patch.diff", f"{dst}/patch.diff")
if os.path.isdir(f"{dst}/demo"):
    shutil.rmtree(f"{dst}/demo")
shutil.copytree(f"{src}/demo", f"{dst}/demo")
# demo files must not be picked up as Go packages of /verif: rename *_test.go -> *_test.go.txt
for root, _, files in os.walk(f"{dst}/demo"):
    for f in files:
        if f.endswith(".go"):
            os.rename(os.path.join(root, f), os.path.join(root, f + ".txt"))
if os.path.exists(f"{src}/NOTES.md"):
    shutil.copy(f"{src}/NOTES.md", f"{dst}/NOTES.md")
conf = open(f"/tmp/wt/{wid}.confirm.txt").read() if os.path.exists(f"/tmp/wt/{wid}.confirm.txt") else ""
m = re.search(r"RESULT demo_without_exit=(\d+) demo_with_exit=(\d+) build=(\d+) new_suite_failures=(\d+)", conf)
meta = {"property": prop, "summary": summary, "base_commit": "b11bfe7 (pinned snapshot)",
        "author": "fresh sub-agent given only the property text and a scratch worktree",
        "confirmed": {"demo_passes_without_change": m and m.group(1) == "0", "demo_fails_with_change": m and m.group(2) != "0",
                      "builds": m and m.group(3) == "0", "new_suite_failures": m and int(m.group(4)),
                      "how": "tools/confirm_seeded.sh in the scratch worktree; suite = go test ./pkg/... ./cmd/... (envtest/e2e packages fail identically on the baseline)"},
        "detection": {}}
json.dump(meta, open(f"{dst}/meta.json", "w"), indent=1)
print("imported", dst)
