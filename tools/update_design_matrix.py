#!/usr/bin/env python3
import subprocess, re
p = '/verif/DESIGN.md'
s = open(p).read()
t = subprocess.run(['python3', '/verif/tools/seeded_matrix.py'], capture_output=True, text=True).stdout
s = re.sub(r'<!-- seeded-matrix-begin -->.*?<!-- seeded-matrix-end -->', '<!-- seeded-matrix-begin -->\n' + t + '<!-- seeded-matrix-end -->', s, flags=re.S)
open(p, 'w').write(s)
