#!/bin/bash
# Builds everything the checks need from files on disk only (offline):
#   .build/overlay.json + .build/goroot/...  GOROOT overlay: map iteration order behind a seam
#   .build/client-go                         patched copy of client-go v0.34.3 (reflector never-exit channel)
#   sim/go.mod, sim/go.sum                   harness module files
#   .build/kaisim.test                       harness test binary (rebuilt by ./check on every run anyway)
set -euo pipefail
cd "$(dirname "$0")"
V=$(pwd)
export GOFLAGS=-mod=mod GOPROXY=off GOSUMDB=off GOTOOLCHAIN=local GONOSUMDB='*' GONOSUMCHECK=1
GO=go1.26.8
GOROOT_SRC=$($GO env GOROOT)/src
MODCACHE=$($GO env GOMODCACHE)
B=$V/.build
mkdir -p "$B"

# ---- 1. GOROOT overlay --------------------------------------------------------------------------
python3 "$V/tools/mkoverlay.py" "$GOROOT_SRC" "$B"

# ---- 2. patched client-go -----------------------------------------------------------------------
CG=$MODCACHE/k8s.io/client-go@v0.34.3
if [ ! -f "$B/client-go/.patched" ]; then
  rm -rf "$B/client-go"
  cp -r "$CG" "$B/client-go"
  chmod -R u+w "$B/client-go"
  R=$B/client-go/tools/cache/reflector.go
  grep -q 'return neverExitWatch, func() bool { return false }' "$R"
  sed -i 's/return neverExitWatch, func() bool { return false }/return make(chan time.Time), func() bool { return false }/' "$R"
  ! grep -q 'return neverExitWatch, func() bool { return false }' "$R"
  touch "$B/client-go/.patched"
fi

# ---- 3. harness module ---------------------------------------------------------------------------
cat > "$V/sim/go.mod" <<EOF
module kaisim

go 1.26

require (
	github.com/NVIDIA/KAI-scheduler v0.0.0
	pgregory.net/rapid v1.3.0
)

replace github.com/NVIDIA/KAI-scheduler => /repo

replace k8s.io/client-go => $B/client-go
EOF
cp /repo/go.sum "$V/sim/go.sum"

# ---- 4. first build (warms the cache; ./check rebuilds incrementally) ---------------------------
"$V/check" --build-only
echo "setup ok"
