package kaisim

// Reference model: recomputes truth from API objects only (own parser of the request forms the
// generator emits; no scheduler info types).

import (
	"math"
	"sort"
	"strconv"
	"strings"

	corev1 "k8s.io/api/core/v1"

	bindv1alpha2 "github.com/NVIDIA/KAI-scheduler/pkg/apis/scheduling/v1alpha2"
)

type Demand struct {
	CPUm     int64
	MemB     int64
	GPUs     int64            // whole GPUs (nvidia.com/gpu)
	Ext      map[string]int64 // MIG / other extended resources
	Shared   bool             // fraction or gpu-memory request
	Fraction float64          // portion per device (0 if by memory)
	GPUMemMi int64            // per device memory (0 if by fraction)
	Devices  int64            // number of shared devices (>=1 when Shared)
}

func PodDemand(p *corev1.Pod) Demand {
	d := Demand{Ext: map[string]int64{}}
	for _, c := range p.Spec.Containers {
		for name, q := range c.Resources.Requests {
			switch {
			case name == corev1.ResourceCPU:
				d.CPUm += q.MilliValue()
			case name == corev1.ResourceMemory:
				d.MemB += q.Value()
			case name == GPUResource:
				d.GPUs += q.Value()
			case name == corev1.ResourcePods:
			default:
				d.Ext[string(name)] += q.Value()
			}
		}
	}
	// Kubernetes: a pod's effective request is the sum of its containers' requests plus spec.overhead
	if q, ok := p.Spec.Overhead[corev1.ResourceCPU]; ok {
		d.CPUm += q.MilliValue()
	}
	if q, ok := p.Spec.Overhead[corev1.ResourceMemory]; ok {
		d.MemB += q.Value()
	}
	if v, ok := p.Annotations["gpu-memory"]; ok {
		if m, err := strconv.ParseInt(v, 10, 64); err == nil && m > 0 {
			d.Shared, d.GPUMemMi, d.Devices = true, m, 1
		}
	}
	if v, ok := p.Annotations["gpu-fraction"]; ok {
		if f, err := strconv.ParseFloat(v, 64); err == nil && f > 0 && f <= 1 {
			d.Shared, d.Fraction, d.Devices, d.GPUMemMi = true, f, 1, 0
		}
	}
	if d.Shared {
		if v, ok := p.Annotations["gpu-fraction-num-devices"]; ok {
			if n, err := strconv.ParseInt(v, 10, 64); err == nil && n > 0 {
				d.Devices = n
			}
		}
	}
	return d
}

func IsReservationPod(p *corev1.Pod) bool {
	return p.Labels["app"] == ReservationApp
}

func PodGroups(p *corev1.Pod) []string {
	var out []string
	if g, ok := p.Labels[GPUGroupLabel]; ok {
		out = append(out, g)
	}
	var multi []string
	for k, v := range p.Labels {
		if strings.HasPrefix(k, GPUGroupPrefix) {
			multi = append(multi, v)
		}
	}
	sort.Strings(multi)
	return append(out, multi...)
}

func podTerminated(p *corev1.Pod) bool {
	return p.Status.Phase == corev1.PodSucceeded || p.Status.Phase == corev1.PodFailed
}

// BRTerminallyFailed is the API-visible predicate "this request is observably failed".
func BRTerminallyFailed(br *bindv1alpha2.BindRequest) bool {
	if br.Status.Phase != bindv1alpha2.BindRequestPhaseFailed {
		return false
	}
	if br.Spec.BackoffLimit == nil {
		return true
	}
	return br.Status.FailedAttempts >= *br.Spec.BackoffLimit
}

// NodeOcc: everything occupying one node according to the API store.
type NodeOcc struct {
	Node      *corev1.Node
	CPUm      int64
	MemB      int64
	Pods      int64
	GPUs      int64
	Ext       map[string]int64
	Groups    map[string]*GroupOcc // gpu group -> sharers
	HasResPod map[string]bool
	Members   []string // pod names counted (diagnostics)
}

type GroupOcc struct {
	Portion float64 // sum of fractions (memory requests converted by node gpu memory)
	MemMi   float64 // sum of memory (fractions converted by node gpu memory)
	Sharers []string
}

func nodeGPUMem(n *corev1.Node) (int64, bool) {
	v, err := strconv.ParseInt(n.Labels["nvidia.com/gpu.memory"], 10, 64)
	if err != nil || v <= 0 {
		return 0, false
	}
	return v, true
}

func nodeGPUCount(n *corev1.Node) int64 {
	q := n.Status.Allocatable[GPUResource]
	return q.Value()
}

// Occupancy computes, per node, the demand of pods occupying it: pods with spec.nodeName (not
// terminated; terminating included) plus unbound pods with a live BindRequest selecting the node.
func Occupancy(api *SimAPI) map[string]*NodeOcc {
	out := map[string]*NodeOcc{}
	for _, n := range api.Nodes() {
		out[n.Name] = &NodeOcc{Node: n, Ext: map[string]int64{}, Groups: map[string]*GroupOcc{}, HasResPod: map[string]bool{}}
	}
	brByPod := map[string]*bindv1alpha2.BindRequest{}
	for _, br := range api.BindRequests() {
		if !BRTerminallyFailed(br) {
			brByPod[br.Namespace+"/"+br.Spec.PodName] = br
		}
	}
	for _, p := range api.Pods() {
		if podTerminated(p) {
			continue
		}
		node := p.Spec.NodeName
		groups := PodGroups(p)
		if node == "" {
			br := brByPod[p.Namespace+"/"+p.Name]
			if br == nil || br.Status.Phase == bindv1alpha2.BindRequestPhaseSucceeded {
				continue
			}
			node = br.Spec.SelectedNode
			groups = br.Spec.SelectedGPUGroups
		} else if br := brByPod[p.Namespace+"/"+p.Name]; br != nil && len(groups) == 0 && len(br.Spec.SelectedGPUGroups) > 0 {
			groups = br.Spec.SelectedGPUGroups
		}
		occ := out[node]
		if occ == nil {
			continue // node gone
		}
		occ.Members = append(occ.Members, p.Name)
		occ.Pods++
		if IsReservationPod(p) {
			if g := p.Labels[GPUGroupLabel]; g != "" {
				// a reservation pod alone does not make a device "in use": sharers do
				occ.HasResPod[g] = true
			}
			continue
		}
		d := PodDemand(p)
		occ.CPUm += d.CPUm
		occ.MemB += d.MemB
		for k, v := range d.Ext {
			occ.Ext[k] += v
		}
		if d.Shared {
			gm, hasMem := nodeGPUMem(occ.Node)
			for _, g := range groups {
				go_ := occ.Groups[g]
				if go_ == nil {
					go_ = &GroupOcc{}
					occ.Groups[g] = go_
				}
				go_.Sharers = append(go_.Sharers, p.Name)
				if d.GPUMemMi > 0 {
					go_.MemMi += float64(d.GPUMemMi)
					if hasMem {
						go_.Portion += float64(d.GPUMemMi) / float64(gm)
					}
				} else {
					go_.Portion += d.Fraction
					if hasMem {
						go_.MemMi += d.Fraction * float64(gm)
					}
				}
			}
		} else {
			occ.GPUs += d.GPUs
		}
	}
	// a group opened by a BindRequest that has no reservation pod yet will need one more pod slot
	for _, occ := range out {
		for g := range occ.Groups {
			if !occ.HasResPod[g] {
				occ.Pods++
			}
		}
	}
	return out
}

func almostLE(a, b float64) bool { return a <= b+1e-6*math.Max(1, math.Abs(b)) }
