package kaisim

// SimAPI: the single simulated API server. One client-go ObjectTracker holds every object;
// each actor gets its own typed clientsets (core + KAI) whose reactor chain is
//   fault hook -> API-server shim (graceful pod deletion) -> ObjectReaction(tracker)
// so every mutating call of every actor is an interception point and ends up in the history.

import (
	"encoding/json"
	"fmt"
	"os"
	"sort"
	"strings"
	"sync"
	"time"

	corev1 "k8s.io/api/core/v1"
	schedulingv1 "k8s.io/api/scheduling/v1"
	apierrors "k8s.io/apimachinery/pkg/api/errors"
	"k8s.io/apimachinery/pkg/api/meta"
	metav1 "k8s.io/apimachinery/pkg/apis/meta/v1"
	"k8s.io/apimachinery/pkg/runtime"
	"k8s.io/apimachinery/pkg/runtime/schema"
	"k8s.io/apimachinery/pkg/runtime/serializer"
	"k8s.io/apimachinery/pkg/watch"
	k8sfake "k8s.io/client-go/kubernetes/fake"
	k8sscheme "k8s.io/client-go/kubernetes/scheme"
	k8stesting "k8s.io/client-go/testing"

	kaifake "github.com/NVIDIA/KAI-scheduler/pkg/apis/client/clientset/versioned/fake"
	kaischeme "github.com/NVIDIA/KAI-scheduler/pkg/apis/client/clientset/versioned/scheme"
	bindv1alpha2 "github.com/NVIDIA/KAI-scheduler/pkg/apis/scheduling/v1alpha2"
	schedv2 "github.com/NVIDIA/KAI-scheduler/pkg/apis/scheduling/v2"
	schedv2alpha2 "github.com/NVIDIA/KAI-scheduler/pkg/apis/scheduling/v2alpha2"
)

var (
	PodGVR   = schema.GroupVersionResource{Version: "v1", Resource: "pods"}
	NodeGVR  = schema.GroupVersionResource{Version: "v1", Resource: "nodes"}
	CMGVR    = schema.GroupVersionResource{Version: "v1", Resource: "configmaps"}
	BRGVR    = schema.GroupVersionResource{Group: "scheduling.run.ai", Version: "v1alpha2", Resource: "bindrequests"}
	PGGVR    = schema.GroupVersionResource{Group: "scheduling.run.ai", Version: "v2alpha2", Resource: "podgroups"}
	QueueGVR = schema.GroupVersionResource{Group: "scheduling.run.ai", Version: "v2", Resource: "queues"}
)

var (
	simScheme     *runtime.Scheme
	simSchemeOnce sync.Once
)

func Scheme() *runtime.Scheme {
	simSchemeOnce.Do(func() {
		s := runtime.NewScheme()
		must(k8sscheme.AddToScheme(s))
		must(kaischeme.AddToScheme(s))
		simScheme = s
	})
	return simScheme
}

func must(err error) {
	if err != nil {
		panic(err)
	}
}

// Call describes one API call as seen by the fault hook / history.
type Call struct {
	Seq      int    `json:"seq"`
	Actor    string `json:"actor"`
	Verb     string `json:"verb"`
	Resource string `json:"res"`
	Sub      string `json:"sub,omitempty"`
	NS       string `json:"ns,omitempty"`
	Name     string `json:"name,omitempty"`
	Outcome  string `json:"out"` // ok | fail-before | fail-after | err:<reason>
	Cycle    int    `json:"cycle"`
}

func (c Call) Key() string {
	return fmt.Sprintf("%s %s %s/%s %s/%s", c.Actor, c.Verb, c.Resource, c.Sub, c.NS, c.Name)
}

// FaultDecider is consulted for every mutating call. kind "" = deliver.
type FaultDecider func(c *Call, nth int) (kind string)

type SimAPI struct {
	Tracker k8stesting.ObjectTracker
	mu      sync.Mutex
	history []Call
	perKey  map[string]int
	Decide  FaultDecider
	Cycle   int
	// OnMutate is called (outside locks) after every applied mutating call.
	OnMutate func(c Call)
	watches  []watchRec
	Binds    []string // every applied pods/binding create
	// batch: calls recorded while a concurrent phase is running are sorted canonically on flush
	batch []Call
	// Dead: client incarnations ("scheduler#2") whose process has crashed
	Dead map[string]bool
}

// swallow: answer a call of a dead process without applying anything.
func (s *SimAPI) swallow(a k8stesting.Action) (bool, runtime.Object, error) {
	switch x := a.(type) {
	case k8stesting.CreateActionImpl:
		return true, x.GetObject(), nil
	case k8stesting.UpdateActionImpl:
		return true, x.GetObject(), nil
	case k8stesting.PatchActionImpl:
		if cur, err := s.Tracker.Get(x.GetResource(), x.GetNamespace(), x.GetName()); err == nil {
			return true, cur, nil
		}
		return true, nil, apierrors.NewNotFound(x.GetResource().GroupResource(), x.GetName())
	}
	return true, nil, nil
}

// baseActor strips the incarnation suffix: "scheduler#2" -> "scheduler".
func baseActor(a string) string {
	if i := strings.IndexByte(a, '#'); i >= 0 {
		return a[:i]
	}
	return a
}

type watchRec struct {
	actor, res, ns string
	w              watch.Interface
	at             time.Time
}

// Backlogs reports watchers holding undelivered events at a quiescent point (a consumer that
// stopped reading would make the consumer's cache stale and the simulation unsound).
func (s *SimAPI) Backlogs() []string {
	s.mu.Lock()
	defer s.mu.Unlock()
	var out []string
	for _, w := range s.watches {
		if n := len(w.w.ResultChan()); n > 0 {
			out = append(out, fmt.Sprintf("%s watch %s/%s opened at %s backlog=%d", w.actor, w.res, w.ns, w.at.Format(time.RFC3339), n))
		}
	}
	return out
}

func init() { watch.DefaultChanSize = 5000 }

func NewSimAPI(objs []runtime.Object) *SimAPI {
	codecs := serializer.NewCodecFactory(Scheme())
	tr := k8stesting.NewObjectTracker(Scheme(), codecs.UniversalDecoder())
	for _, o := range objs {
		if err := tr.Add(o); err != nil {
			panic(fmt.Sprintf("tracker add %T: %v", o, err))
		}
	}
	return &SimAPI{Tracker: tr, perKey: map[string]int{}, Dead: map[string]bool{}}
}

func isMutating(verb string) bool {
	switch verb {
	case "create", "update", "patch", "delete", "delete-collection":
		return true
	}
	return false
}

func actionName(a k8stesting.Action) string {
	switch x := a.(type) {
	case k8stesting.CreateActionImpl:
		if m, err := meta.Accessor(x.GetObject()); err == nil {
			return m.GetName()
		}
	case k8stesting.UpdateActionImpl:
		if m, err := meta.Accessor(x.GetObject()); err == nil {
			return m.GetName()
		}
	case k8stesting.DeleteActionImpl:
		return x.GetName()
	case k8stesting.PatchActionImpl:
		return x.GetName()
	case k8stesting.GetActionImpl:
		return x.GetName()
	}
	return ""
}

func (s *SimAPI) record(c Call) {
	if c.Resource == "events" {
		return
	}
	s.mu.Lock()
	s.batch = append(s.batch, c)
	s.mu.Unlock()
}

// Flush moves the calls recorded since the last flush into the history in canonical (content)
// order, so that the history does not depend on the arrival order of concurrent calls.
func (s *SimAPI) Flush() []Call {
	s.mu.Lock()
	defer s.mu.Unlock()
	b := s.batch
	s.batch = nil
	sort.SliceStable(b, func(i, j int) bool { return b[i].Key() < b[j].Key() })
	for i := range b {
		b[i].Seq = len(s.history)
		s.history = append(s.history, b[i])
	}
	return b
}

func (s *SimAPI) History() []Call {
	s.mu.Lock()
	defer s.mu.Unlock()
	return append([]Call(nil), s.history...)
}

func apiErr(kind string, c *Call) error {
	gr := schema.GroupResource{Resource: c.Resource}
	switch kind {
	case "conflict":
		return apierrors.NewConflict(gr, c.Name, fmt.Errorf("simulated conflict"))
	case "notfound":
		return apierrors.NewNotFound(gr, c.Name)
	case "throttle":
		return apierrors.NewTooManyRequests("simulated throttling", 1)
	case "timeout":
		return apierrors.NewTimeoutError("simulated timeout", 1)
	default:
		return apierrors.NewInternalError(fmt.Errorf("simulated %s", kind))
	}
}

// reactor chain for one actor
func (s *SimAPI) install(f *k8stesting.Fake, actor string) {
	objReact := k8stesting.ObjectReaction(s.Tracker)
	f.PrependReactor("*", "*", func(a k8stesting.Action) (bool, runtime.Object, error) {
		verb := a.GetVerb()
		if !isMutating(verb) {
			return objReact(a)
		}
		gvr := a.GetResource()
		c := Call{Actor: baseActor(actor), Verb: verb, Resource: gvr.Resource, Sub: a.GetSubresource(), NS: a.GetNamespace(), Name: actionName(a)}
		s.mu.Lock()
		dead := s.Dead[actor]
		s.mu.Unlock()
		if dead {
			// the process this client belonged to has crashed: whatever its leftover goroutines still try has no effect
			// (and must not keep them busy: a retry loop of a dead process does not exist)
			return s.swallow(a)
		}
		s.mu.Lock()
		c.Cycle = s.Cycle
		k := c.Key()
		nth := s.perKey[k]
		s.perKey[k] = nth + 1
		dec := s.Decide
		s.mu.Unlock()
		kind := ""
		if dec != nil {
			kind = dec(&c, nth)
		}
		if kind == "swallow" { // the process died at this point: the call never reaches the API server
			c.Outcome = "lost:crash"
			s.record(c)
			return s.swallow(a)
		}
		if kind != "" && !strings.HasPrefix(kind, "after:") {
			c.Outcome = "fail-before:" + kind
			s.record(c)
			return true, nil, apiErr(kind, &c)
		}
		handled, obj, err := s.shim(a, objReact)
		if err != nil && os.Getenv("KAISIM_DEBUG_API") != "" {
			extra := ""
			if pa, ok := a.(k8stesting.PatchActionImpl); ok {
				extra = string(pa.GetPatch())
				if cur, gerr := s.Tracker.Get(a.GetResource(), a.GetNamespace(), pa.GetName()); gerr == nil {
					b, _ := json.Marshal(cur)
					extra += "\n   stored: " + string(b)
				}
			}
			fmt.Printf("API-ERR %s: %v %s\n", c.Key(), err, extra)
		}
		if err != nil {
			c.Outcome = "err:" + string(apierrors.ReasonForError(err))
			s.record(c)
			return handled, obj, err
		}
		if kind != "" {
			c.Outcome = "fail-after:" + kind
			s.record(c)
			if s.OnMutate != nil {
				s.OnMutate(c)
			}
			return true, nil, apiErr(strings.TrimPrefix(kind, "after:"), &c)
		}
		c.Outcome = "ok"
		s.record(c)
		if s.OnMutate != nil {
			s.OnMutate(c)
		}
		return handled, obj, err
	})
	f.PrependWatchReactor("*", func(a k8stesting.Action) (bool, watch.Interface, error) {
		wa := a.(k8stesting.WatchActionImpl)
		w, err := s.Tracker.Watch(wa.GetResource(), wa.GetNamespace(), wa.ListOptions)
		if err == nil {
			s.mu.Lock()
			s.watches = append(s.watches, watchRec{actor: actor, res: wa.GetResource().Resource, ns: wa.GetNamespace(), w: w, at: time.Now()})
			s.mu.Unlock()
		}
		return true, w, err
	})
}

// shim adds API-server behaviour the tracker lacks.
func (s *SimAPI) shim(a k8stesting.Action, objReact k8stesting.ReactionFunc) (bool, runtime.Object, error) {
	if da, ok := a.(k8stesting.DeleteActionImpl); ok && da.GetResource().Resource == "pods" && da.GetSubresource() == "" {
		return true, nil, s.DeletePod(da.GetNamespace(), da.GetName(), da.DeleteOptions.GracePeriodSeconds)
	}
	if ua, ok := a.(k8stesting.UpdateActionImpl); ok && ua.GetSubresource() == "status" {
		// a real API server only takes .status from an UpdateStatus request
		m, err := meta.Accessor(ua.GetObject())
		if err != nil {
			return true, nil, err
		}
		cur, err := s.Tracker.Get(ua.GetResource(), ua.GetNamespace(), m.GetName())
		if err != nil {
			return true, nil, err
		}
		curU, err := runtime.DefaultUnstructuredConverter.ToUnstructured(cur)
		if err != nil {
			return true, nil, err
		}
		newU, err := runtime.DefaultUnstructuredConverter.ToUnstructured(ua.GetObject())
		if err != nil {
			return true, nil, err
		}
		if st, ok := newU["status"]; ok {
			curU["status"] = st
		} else {
			delete(curU, "status")
		}
		out := cur.DeepCopyObject()
		if err := runtime.DefaultUnstructuredConverter.FromUnstructured(curU, out); err != nil {
			return true, nil, err
		}
		if err := s.Tracker.Update(ua.GetResource(), out, ua.GetNamespace()); err != nil {
			return true, nil, err
		}
		return true, out, nil
	}
	return objReact(a)
}

// DeletePod: graceful deletion. A pod that is on a node and not yet terminated stays, marked
// terminating, until the kubelet actor removes it; everything else is removed at once.
func (s *SimAPI) DeletePod(ns, name string, grace *int64) error {
	obj, err := s.Tracker.Get(PodGVR, ns, name)
	if err != nil {
		return err
	}
	pod := obj.(*corev1.Pod)
	grace0 := grace != nil && *grace == 0
	if pod.Spec.NodeName != "" && !grace0 && pod.Status.Phase != corev1.PodSucceeded && pod.Status.Phase != corev1.PodFailed {
		if pod.DeletionTimestamp == nil {
			pod = pod.DeepCopy()
			now := metav1.NewTime(time.Now())
			pod.DeletionTimestamp = &now
			g := int64(30)
			pod.DeletionGracePeriodSeconds = &g
			return s.Tracker.Update(PodGVR, pod, pod.Namespace)
		}
		return nil
	}
	if err := s.Tracker.Delete(PodGVR, ns, name); err != nil {
		return err
	}
	s.gcOwned(pod)
	return nil
}

// BindPod: the pods/binding sub-resource.
func (s *SimAPI) BindPod(p *corev1.Pod, b *corev1.Binding) error {
	obj, err := s.Tracker.Get(PodGVR, p.Namespace, p.Name)
	if err != nil {
		return err
	}
	pod := obj.(*corev1.Pod)
	if b.UID != "" && pod.UID != b.UID {
		return apierrors.NewConflict(schema.GroupResource{Resource: "pods"}, p.Name, fmt.Errorf("uid mismatch"))
	}
	if pod.Spec.NodeName != "" {
		return apierrors.NewConflict(schema.GroupResource{Resource: "pods/binding"}, p.Name, fmt.Errorf("pod %s is already assigned to node %q", p.Name, pod.Spec.NodeName))
	}
	if pod.DeletionTimestamp != nil {
		return apierrors.NewConflict(schema.GroupResource{Resource: "pods/binding"}, p.Name, fmt.Errorf("pod %s is being deleted", p.Name))
	}
	pod = pod.DeepCopy()
	pod.Spec.NodeName = b.Target.Name
	pod.Status.Conditions = append(pod.Status.Conditions, corev1.PodCondition{Type: corev1.PodScheduled, Status: corev1.ConditionTrue})
	s.mu.Lock()
	s.Binds = append(s.Binds, pod.Namespace+"/"+pod.Name+"->"+b.Target.Name)
	s.mu.Unlock()
	return s.Tracker.Update(PodGVR, pod, pod.Namespace)
}

// gcOwned removes BindRequests owned by a removed pod (owner-reference garbage collection).
func (s *SimAPI) gcOwned(pod *corev1.Pod) {
	for _, cm := range s.ConfigMaps() {
		for _, or := range cm.OwnerReferences {
			if or.Kind == "Pod" && or.UID == pod.UID {
				_ = s.Tracker.Delete(CMGVR, cm.Namespace, cm.Name)
			}
		}
	}
	for _, br := range s.BindRequests() {
		for _, or := range br.OwnerReferences {
			if or.Kind == "Pod" && or.UID == pod.UID {
				_ = s.Tracker.Delete(BRGVR, br.Namespace, br.Name)
			}
		}
	}
}

// GCOrphans is one pass of the owner-reference garbage collector over ConfigMaps and BindRequests: an object all of whose
// owners are pods that no longer exist (by UID) is deleted.
func (s *SimAPI) GCOrphans() {
	live := map[string]bool{}
	for _, p := range s.Pods() {
		live[string(p.UID)] = true
	}
	orphan := func(refs []metav1.OwnerReference) bool {
		if len(refs) == 0 {
			return false
		}
		for _, or := range refs {
			if or.Kind != "Pod" || live[string(or.UID)] {
				return false
			}
		}
		return true
	}
	for _, cm := range s.ConfigMaps() {
		if orphan(cm.OwnerReferences) {
			_ = s.Tracker.Delete(CMGVR, cm.Namespace, cm.Name)
		}
	}
	for _, br := range s.BindRequests() {
		if orphan(br.OwnerReferences) {
			_ = s.Tracker.Delete(BRGVR, br.Namespace, br.Name)
		}
	}
}

// RemovePod removes a pod object for good (kubelet finished / completed / force delete).
func (s *SimAPI) RemovePod(ns, name string) {
	obj, err := s.Tracker.Get(PodGVR, ns, name)
	if err != nil {
		return
	}
	_ = s.Tracker.Delete(PodGVR, ns, name)
	s.gcOwned(obj.(*corev1.Pod))
}

type Clients struct {
	Kube *k8sfake.Clientset
	Kai  *kaifake.Clientset
}

func (s *SimAPI) ClientsFor(actor string) *Clients {
	kc := k8sfake.NewSimpleClientset()
	ac := kaifake.NewSimpleClientset()
	s.install(&kc.Fake, actor)
	s.install(&ac.Fake, actor)
	return &Clients{Kube: kc, Kai: ac}
}

// ---- typed read helpers over the tracker (ground truth for oracles) ----

func (s *SimAPI) list(gvr schema.GroupVersionResource, kind string, ns string) runtime.Object {
	gvk := gvr.GroupVersion().WithKind(kind)
	obj, err := s.Tracker.List(gvr, gvk, ns)
	if err != nil {
		panic(err)
	}
	return obj
}

func (s *SimAPI) Pods() []*corev1.Pod {
	l := s.list(PodGVR, "Pod", "").(*corev1.PodList)
	out := make([]*corev1.Pod, 0, len(l.Items))
	for i := range l.Items {
		out = append(out, &l.Items[i])
	}
	sort.Slice(out, func(i, j int) bool {
		if out[i].Namespace != out[j].Namespace {
			return out[i].Namespace < out[j].Namespace
		}
		return out[i].Name < out[j].Name
	})
	return out
}

func (s *SimAPI) Pod(ns, name string) *corev1.Pod {
	obj, err := s.Tracker.Get(PodGVR, ns, name)
	if err != nil {
		return nil
	}
	return obj.(*corev1.Pod)
}

func (s *SimAPI) Nodes() []*corev1.Node {
	l := s.list(NodeGVR, "Node", "").(*corev1.NodeList)
	out := make([]*corev1.Node, 0, len(l.Items))
	for i := range l.Items {
		out = append(out, &l.Items[i])
	}
	sort.Slice(out, func(i, j int) bool { return out[i].Name < out[j].Name })
	return out
}

func (s *SimAPI) BindRequests() []*bindv1alpha2.BindRequest {
	l := s.list(BRGVR, "BindRequest", "").(*bindv1alpha2.BindRequestList)
	out := make([]*bindv1alpha2.BindRequest, 0, len(l.Items))
	for i := range l.Items {
		out = append(out, &l.Items[i])
	}
	sort.Slice(out, func(i, j int) bool { return out[i].Name < out[j].Name })
	return out
}

func (s *SimAPI) PodGroups() []*schedv2alpha2.PodGroup {
	l := s.list(PGGVR, "PodGroup", "").(*schedv2alpha2.PodGroupList)
	out := make([]*schedv2alpha2.PodGroup, 0, len(l.Items))
	for i := range l.Items {
		out = append(out, &l.Items[i])
	}
	sort.Slice(out, func(i, j int) bool { return out[i].Name < out[j].Name })
	return out
}

func (s *SimAPI) Queues() []*schedv2.Queue {
	l := s.list(QueueGVR, "Queue", "").(*schedv2.QueueList)
	out := make([]*schedv2.Queue, 0, len(l.Items))
	for i := range l.Items {
		out = append(out, &l.Items[i])
	}
	sort.Slice(out, func(i, j int) bool { return out[i].Name < out[j].Name })
	return out
}

func (s *SimAPI) ConfigMaps() []*corev1.ConfigMap {
	l := s.list(CMGVR, "ConfigMap", "").(*corev1.ConfigMapList)
	out := make([]*corev1.ConfigMap, 0, len(l.Items))
	for i := range l.Items {
		out = append(out, &l.Items[i])
	}
	sort.Slice(out, func(i, j int) bool { return out[i].Namespace+"/"+out[i].Name < out[j].Namespace+"/"+out[j].Name })
	return out
}

func (s *SimAPI) PriorityClasses() []*schedulingv1.PriorityClass {
	gvr := schema.GroupVersionResource{Group: "scheduling.k8s.io", Version: "v1", Resource: "priorityclasses"}
	l := s.list(gvr, "PriorityClass", "").(*schedulingv1.PriorityClassList)
	out := make([]*schedulingv1.PriorityClass, 0, len(l.Items))
	for i := range l.Items {
		out = append(out, &l.Items[i])
	}
	sort.Slice(out, func(i, j int) bool { return out[i].Name < out[j].Name })
	return out
}

func (s *SimAPI) UpdatePod(p *corev1.Pod) {
	if err := s.Tracker.Update(PodGVR, p, p.Namespace); err != nil {
		panic(err)
	}
}
