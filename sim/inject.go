package kaisim

// Malformed / adversarial API objects injected between cycles (C10).

import (
	"fmt"

	corev1 "k8s.io/api/core/v1"
	"k8s.io/apimachinery/pkg/api/resource"
	metav1 "k8s.io/apimachinery/pkg/apis/meta/v1"
	"k8s.io/apimachinery/pkg/types"
	"k8s.io/utils/ptr"

	bindv1alpha2 "github.com/NVIDIA/KAI-scheduler/pkg/apis/scheduling/v1alpha2"
	schedv2alpha2 "github.com/NVIDIA/KAI-scheduler/pkg/apis/scheduling/v2alpha2"
)

var InjectKinds = []string{
	"queue-self-parent", "queue-2cycle", "queue-3cycle", "queue-missing-parent", "queue-nil-resources", "queue-negative",
	"wl-unknown-queue", "wl-nonleaf-queue", "wl-cyclic-queue", "wl-unknown-priorityclass",
	"pg-dup-subgroups", "pg-cyclic-subgroups", "pg-unknown-parent-subgroup", "pg-min-zero", "pg-min-negative", "pg-min-gt-size",
	"pg-bad-timestamps", "pg-no-pods", "pod-bad-fraction", "pod-bad-gpumemory", "pod-bad-numdevices", "pod-unknown-subgroup",
	"pod-missing-podgroup", "pod-huge-request", "node-no-labels-zero", "node-bad-gpu-labels", "node-negative", "br-missing-pod",
	"br-missing-node", "delete-queue-of-running", "delete-podgroup-of-running", "delete-node-of-running",
	"pvc-no-storageclass", "topology-no-levels", "pg-unknown-topology", "pg-unknown-topology-level", "subgroup-unknown-topology",
	"topology-root-collision",
}

var badNumbers = []string{"NaN", "Inf", "-Inf", "-1", "0", "1e309", "abc", "0x1p-2", " 0.5", "0.5 ", "1e-400", "99999999999999999999", "+0.5", "-0", ""}

func (r *Run) inject(kind string, n int) {
	name := fmt.Sprintf("bad%d", r.Res.Probes["injected"])
	r.Probe("injected")
	r.Probe("inject_" + kind)
	bad := badNumbers[n%len(badNumbers)]
	healthyQueue := ""
	for _, q := range r.S.World.Queues {
		healthyQueue = q.Name
	}
	newPod := func(pn, group string, mut func(p *PodSpec)) *corev1.Pod {
		ps := PodSpec{Name: pn, CPUm: 100, MemMi: 128, State: "pending"}
		if mut != nil {
			mut(&ps)
		}
		w := &WorkloadSpec{Name: group, Queue: healthyQueue, AgeSec: 5}
		p := BuildPod(w, ps)
		p.UID = types.UID("pod-" + pn)
		return p
	}
	newPG := func(gn, queue string, min int32) *schedv2alpha2.PodGroup {
		pg := BuildPodGroup(WorkloadSpec{Name: gn, Queue: queue, MinMember: min, AgeSec: 5})
		return pg
	}
	switch kind {
	case "queue-self-parent":
		_ = r.API.Tracker.Add(BuildQueue(QueueSpec{Name: name, Parent: name, GPU: QRes{1, -1, 1}, CPU: QRes{1000, -1, 1}, Mem: QRes{1000, -1, 1}}))
	case "queue-2cycle":
		_ = r.API.Tracker.Add(BuildQueue(QueueSpec{Name: name + "a", Parent: name + "b", GPU: QRes{1, -1, 1}, CPU: QRes{0, -1, 1}, Mem: QRes{0, -1, 1}}))
		_ = r.API.Tracker.Add(BuildQueue(QueueSpec{Name: name + "b", Parent: name + "a", GPU: QRes{1, -1, 1}, CPU: QRes{0, -1, 1}, Mem: QRes{0, -1, 1}}))
	case "queue-3cycle":
		for i, nm := range []string{"a", "b", "c"} {
			_ = r.API.Tracker.Add(BuildQueue(QueueSpec{Name: name + nm, Parent: name + []string{"b", "c", "a"}[i], GPU: QRes{0, -1, 1}, CPU: QRes{0, -1, 1}, Mem: QRes{0, -1, 1}}))
		}
	case "queue-missing-parent":
		_ = r.API.Tracker.Add(BuildQueue(QueueSpec{Name: name, Parent: "no-such-queue", GPU: QRes{1, -1, 1}, CPU: QRes{0, -1, 1}, Mem: QRes{0, -1, 1}}))
		_ = r.API.Tracker.Add(newPG(name+"w", name, 1))
		_ = r.API.Tracker.Add(newPod(name+"w-p0", name+"w", nil))
	case "queue-nil-resources":
		_ = r.API.Tracker.Add(BuildQueue(QueueSpec{Name: name, NilResources: true}))
		_ = r.API.Tracker.Add(newPG(name+"w", name, 1))
		_ = r.API.Tracker.Add(newPod(name+"w-p0", name+"w", nil))
	case "queue-negative":
		_ = r.API.Tracker.Add(BuildQueue(QueueSpec{Name: name, GPU: QRes{-5, -7, -1}, CPU: QRes{-1000, -3, -2}, Mem: QRes{-9, -2, -1}}))
		_ = r.API.Tracker.Add(newPG(name+"w", name, 1))
		_ = r.API.Tracker.Add(newPod(name+"w-p0", name+"w", nil))
	case "wl-unknown-queue":
		_ = r.API.Tracker.Add(newPG(name, "no-such-queue", 1))
		_ = r.API.Tracker.Add(newPod(name+"-p0", name, nil))
	case "wl-nonleaf-queue":
		parent := ""
		for _, q := range r.S.World.Queues {
			if q.Parent != "" {
				parent = q.Parent
			}
		}
		if parent == "" {
			parent = healthyQueue
		}
		_ = r.API.Tracker.Add(newPG(name, parent, 1))
		_ = r.API.Tracker.Add(newPod(name+"-p0", name, nil))
	case "wl-cyclic-queue":
		_ = r.API.Tracker.Add(BuildQueue(QueueSpec{Name: name + "a", Parent: name + "b", GPU: QRes{1, -1, 1}, CPU: QRes{0, -1, 1}, Mem: QRes{0, -1, 1}}))
		_ = r.API.Tracker.Add(BuildQueue(QueueSpec{Name: name + "b", Parent: name + "a", GPU: QRes{1, -1, 1}, CPU: QRes{0, -1, 1}, Mem: QRes{0, -1, 1}}))
		_ = r.API.Tracker.Add(newPG(name, name+"a", 1))
		_ = r.API.Tracker.Add(newPod(name+"-p0", name, nil))
	case "wl-unknown-priorityclass":
		pg := newPG(name, healthyQueue, 1)
		pg.Spec.PriorityClassName = "no-such-class"
		_ = r.API.Tracker.Add(pg)
		_ = r.API.Tracker.Add(newPod(name+"-p0", name, nil))
	case "pg-dup-subgroups", "pg-cyclic-subgroups", "pg-unknown-parent-subgroup":
		pg := newPG(name, healthyQueue, 2)
		switch kind {
		case "pg-dup-subgroups":
			pg.Spec.SubGroups = []schedv2alpha2.SubGroup{{Name: "a", MinMember: 1}, {Name: "a", MinMember: 1}}
		case "pg-cyclic-subgroups":
			pg.Spec.SubGroups = []schedv2alpha2.SubGroup{{Name: "a", MinMember: 1, Parent: ptr.To("b")}, {Name: "b", MinMember: 1, Parent: ptr.To("a")}}
		default:
			pg.Spec.SubGroups = []schedv2alpha2.SubGroup{{Name: "a", MinMember: 1, Parent: ptr.To("zzz")}, {Name: "b", MinMember: 1}}
		}
		_ = r.API.Tracker.Add(pg)
		_ = r.API.Tracker.Add(newPod(name+"-p0", name, func(p *PodSpec) { p.SubGroup = "a" }))
		_ = r.API.Tracker.Add(newPod(name+"-p1", name, func(p *PodSpec) { p.SubGroup = "b" }))
	case "pvc-no-storageclass":
		// a claim without a storage class (statically provisioned volume, or no default class): legal, and a pod using it
		pvc := &corev1.PersistentVolumeClaim{TypeMeta: metav1.TypeMeta{APIVersion: "v1", Kind: "PersistentVolumeClaim"},
			ObjectMeta: metav1.ObjectMeta{Name: name + "-pvc", Namespace: NS, UID: types.UID("pvc-" + name)},
			Spec: corev1.PersistentVolumeClaimSpec{AccessModes: []corev1.PersistentVolumeAccessMode{corev1.ReadWriteOnce},
				Resources: corev1.VolumeResourceRequirements{Requests: corev1.ResourceList{corev1.ResourceStorage: resource.MustParse("1Gi")}}}}
		if n%3 == 1 {
			pvc.Spec.StorageClassName = ptr.To("")
		} else if n%3 == 2 {
			pvc.Spec.StorageClassName = ptr.To("no-such-class")
		}
		_ = r.API.Tracker.Add(pvc)
		_ = r.API.Tracker.Add(newPG(name, healthyQueue, 1))
		pod := newPod(name+"-p0", name, nil)
		pod.Spec.Volumes = append(pod.Spec.Volumes, corev1.Volume{Name: "data", VolumeSource: corev1.VolumeSource{PersistentVolumeClaim: &corev1.PersistentVolumeClaimVolumeSource{ClaimName: pvc.Name}}})
		_ = r.API.Tracker.Add(pod)
	case "topology-no-levels", "pg-unknown-topology", "pg-unknown-topology-level", "subgroup-unknown-topology":
		// topology constraints that name nothing usable: a Topology without levels, a missing Topology, a level the
		// Topology does not define (required or preferred, by variant), the same on a sub-group
		topo, level := name+"-topo", "kaisim/zone"
		switch kind {
		case "topology-no-levels":
			_ = r.API.Tracker.Add(BuildTopology(TopologySpec{Name: topo}))
		case "pg-unknown-topology", "subgroup-unknown-topology":
			topo = "no-such-topology"
		default:
			_ = r.API.Tracker.Add(BuildTopology(TopologySpec{Name: topo, Levels: []string{"kaisim/zone", "kubernetes.io/hostname"}}))
			level = "kaisim/no-such-level"
		}
		tc := schedv2alpha2.TopologyConstraint{Topology: topo}
		switch n % 3 {
		case 0:
			tc.RequiredTopologyLevel = level
		case 1:
			tc.PreferredTopologyLevel = level
		default:
			tc.RequiredTopologyLevel, tc.PreferredTopologyLevel = level, level
		}
		pg := newPG(name, healthyQueue, 1)
		if kind == "subgroup-unknown-topology" {
			pg.Spec.MinMember = 2
			pg.Spec.SubGroups = []schedv2alpha2.SubGroup{{Name: "a", MinMember: 1, TopologyConstraint: &tc}, {Name: "b", MinMember: 1}}
			_ = r.API.Tracker.Add(pg)
			_ = r.API.Tracker.Add(newPod(name+"-p0", name, func(p *PodSpec) { p.SubGroup = "a" }))
			_ = r.API.Tracker.Add(newPod(name+"-p1", name, func(p *PodSpec) { p.SubGroup = "b" }))
		} else {
			pg.Spec.TopologyConstraint = tc
			_ = r.API.Tracker.Add(pg)
			_ = r.API.Tracker.Add(newPod(name+"-p0", name, nil))
		}
	case "topology-root-collision":
		// a level whose node label key, or a node whose label value at the first level, is spelled like the topology
		// plugin's own root domain ("root"): the level's domains must not be mistaken for the root of the tree
		key := "kaisim/zone"
		if n%2 == 0 {
			key = "root"
		}
		nd := BuildNode(NodeSpec{Name: name, CPUm: 4000, MemMi: 4096, Pods: 10})
		nd.Labels[key] = "root"
		_ = r.API.Tracker.Add(nd)
		levels := []string{key}
		if n%3 == 0 {
			levels = append(levels, "kubernetes.io/hostname")
		}
		_ = r.API.Tracker.Add(BuildTopology(TopologySpec{Name: name + "-topo", Levels: levels}))
		pg := newPG(name, healthyQueue, 1)
		pg.Spec.TopologyConstraint = schedv2alpha2.TopologyConstraint{Topology: name + "-topo", RequiredTopologyLevel: levels[len(levels)-1]}
		if n%5 == 0 {
			pg.Spec.TopologyConstraint.PreferredTopologyLevel = levels[0]
		}
		_ = r.API.Tracker.Add(pg)
		_ = r.API.Tracker.Add(newPod(name+"-p0", name, nil))
	case "pg-min-zero", "pg-min-negative", "pg-min-gt-size":
		min := map[string]int32{"pg-min-zero": 0, "pg-min-negative": -3, "pg-min-gt-size": 7}[kind]
		pg := newPG(name, healthyQueue, min)
		if n%2 == 1 {
			pg.Spec.SubGroups = []schedv2alpha2.SubGroup{{Name: "a", MinMember: min}}
		}
		_ = r.API.Tracker.Add(pg)
		_ = r.API.Tracker.Add(newPod(name+"-p0", name, func(p *PodSpec) {
			if n%2 == 1 {
				p.SubGroup = "a"
			}
		}))
	case "pg-bad-timestamps":
		pg := newPG(name, healthyQueue, 1)
		pg.Annotations["kai.scheduler/last-start-timestamp"] = "not-a-time"
		pg.Annotations["kai.scheduler/stale-podgroup-timestamp"] = "9999-99-99T99:99:99Z"
		_ = r.API.Tracker.Add(pg)
		_ = r.API.Tracker.Add(newPod(name+"-p0", name, nil))
	case "pg-no-pods":
		_ = r.API.Tracker.Add(newPG(name, healthyQueue, 2))
	case "pod-bad-fraction":
		_ = r.API.Tracker.Add(newPG(name, healthyQueue, 1))
		_ = r.API.Tracker.Add(newPod(name+"-p0", name, func(p *PodSpec) { p.ExtraAnnot = map[string]string{"gpu-fraction": bad} }))
	case "pod-bad-gpumemory":
		_ = r.API.Tracker.Add(newPG(name, healthyQueue, 1))
		_ = r.API.Tracker.Add(newPod(name+"-p0", name, func(p *PodSpec) { p.ExtraAnnot = map[string]string{"gpu-memory": bad} }))
	case "pod-bad-numdevices":
		_ = r.API.Tracker.Add(newPG(name, healthyQueue, 1))
		_ = r.API.Tracker.Add(newPod(name+"-p0", name, func(p *PodSpec) {
			p.ExtraAnnot = map[string]string{"gpu-fraction": "0.5", "gpu-fraction-num-devices": bad}
		}))
	case "pod-unknown-subgroup":
		_ = r.API.Tracker.Add(newPG(name, healthyQueue, 1))
		_ = r.API.Tracker.Add(newPod(name+"-p0", name, func(p *PodSpec) { p.SubGroup = "no-such-subgroup" }))
	case "pod-missing-podgroup":
		_ = r.API.Tracker.Add(newPod(name+"-p0", "no-such-podgroup-"+name, nil))
	case "pod-huge-request":
		_ = r.API.Tracker.Add(newPG(name, healthyQueue, 1))
		_ = r.API.Tracker.Add(newPod(name+"-p0", name, func(p *PodSpec) { p.CPUm, p.MemMi, p.GPUs = 1<<60, 1<<40, 1<<40 }))
	case "node-no-labels-zero":
		nd := BuildNode(NodeSpec{Name: name, CPUm: 0, MemMi: 0, Pods: 0})
		nd.Labels = nil
		_ = r.API.Tracker.Add(nd)
	case "node-bad-gpu-labels":
		nd := BuildNode(NodeSpec{Name: name, CPUm: 4000, MemMi: 4096, Pods: 10, GPUs: 2})
		nd.Labels["nvidia.com/gpu.memory"] = bad
		nd.Labels["nvidia.com/gpu.count"] = bad
		_ = r.API.Tracker.Add(nd)
	case "node-negative":
		nd := BuildNode(NodeSpec{Name: name, CPUm: -4000, MemMi: -4096, Pods: -1, GPUs: 2})
		_ = r.API.Tracker.Add(nd)
	case "br-missing-pod":
		br := BuildSucceededBindRequest(PodSpec{Name: name + "-ghost", Node: "n0"})
		br.Status.Phase = bindv1alpha2.BindRequestPhasePending
		br.OwnerReferences = nil
		_ = r.API.Tracker.Add(br)
	case "br-missing-node":
		_ = r.API.Tracker.Add(newPG(name, healthyQueue, 1))
		_ = r.API.Tracker.Add(newPod(name+"-p0", name, nil))
		br := BuildSucceededBindRequest(PodSpec{Name: name + "-p0", Node: "no-such-node"})
		br.Status.Phase = bindv1alpha2.BindRequestPhasePending
		_ = r.API.Tracker.Add(br)
	case "delete-queue-of-running", "delete-podgroup-of-running", "delete-node-of-running":
		for _, p := range r.API.Pods() {
			if p.Spec.NodeName == "" || p.Namespace != NS || p.Annotations[PGAnnotation] == "ww" {
				continue
			}
			pgName := p.Annotations[PGAnnotation]
			switch kind {
			case "delete-queue-of-running":
				for _, pg := range r.API.PodGroups() {
					if pg.Name == pgName && pg.Spec.Queue != "qw" {
						_ = r.API.Tracker.Delete(QueueGVR, "", pg.Spec.Queue)
					}
				}
			case "delete-podgroup-of-running":
				_ = r.API.Tracker.Delete(PGGVR, NS, pgName)
			case "delete-node-of-running":
				if p.Spec.NodeName != "nw" {
					_ = r.API.Tracker.Delete(NodeGVR, "", p.Spec.NodeName)
				}
			}
			break
		}
	default:
		panic("unknown inject kind " + kind)
	}
	_ = metav1.Now
}
