package kaisim

// Binder actor: the real BindRequestReconciler + Binder + resourcereservation service + gpusharing
// plugin on a controller-runtime fake client that shares SimAPI's object tracker. Every client call
// passes an interceptor that counts it, records it and lets the script fail it (before / after) or
// crash the binder at that point.

import (
	k8splugins "github.com/NVIDIA/KAI-scheduler/pkg/binder/plugins/k8s-plugins"
	"context"
	"fmt"
	"os"
	"sort"
	"strconv"
	"strings"
	"sync"
	"time"

	corev1 "k8s.io/api/core/v1"
	apierrors "k8s.io/apimachinery/pkg/api/errors"
	"k8s.io/apimachinery/pkg/runtime/schema"
	"k8s.io/apimachinery/pkg/types"
	"k8s.io/apimachinery/pkg/watch"
	"k8s.io/client-go/tools/record"
	ctrl "sigs.k8s.io/controller-runtime"
	"sigs.k8s.io/controller-runtime/pkg/client"
	crfake "sigs.k8s.io/controller-runtime/pkg/client/fake"
	"sigs.k8s.io/controller-runtime/pkg/client/interceptor"

	bindv1alpha2 "github.com/NVIDIA/KAI-scheduler/pkg/apis/scheduling/v1alpha2"
	"github.com/NVIDIA/KAI-scheduler/pkg/binder/binding"
	"github.com/NVIDIA/KAI-scheduler/pkg/binder/binding/resourcereservation"
	"github.com/NVIDIA/KAI-scheduler/pkg/binder/controllers"
	binderplugins "github.com/NVIDIA/KAI-scheduler/pkg/binder/plugins"
	"github.com/NVIDIA/KAI-scheduler/pkg/binder/plugins/gpusharing"
	k8splugincommon "github.com/NVIDIA/KAI-scheduler/pkg/binder/plugins/k8s-plugins/common"
	binderdra "github.com/NVIDIA/KAI-scheduler/pkg/binder/plugins/k8s-plugins/dynamicresources"
	bindstate "github.com/NVIDIA/KAI-scheduler/pkg/binder/plugins/state"
	"github.com/NVIDIA/KAI-scheduler/pkg/common/k8s_utils"
	"k8s.io/client-go/informers"
	k8splfeature "k8s.io/kubernetes/pkg/scheduler/framework/plugins/feature"
)

type crashSentinel struct{ at int }

// crashHere: a process crash at this point — the goroutine never runs again (nothing after the
// crash point executes, not even deferred functions of the reconciler).
func (b *BinderActor) crashHere(k int) {
	id := currentReconcile()
	b.mu.Lock()
	cb := b.OnCrash
	b.mu.Unlock()
	if cb != nil {
		cb(id, k)
	}
	<-make(chan struct{})
}

type BinderCall struct {
	K     int    `json:"k"`
	Verb  string `json:"verb"`
	Kind  string `json:"kind"`
	Name  string `json:"name,omitempty"`
	Fault string `json:"fault,omitempty"`
	Err   string `json:"err,omitempty"`
}

func (c BinderCall) String() string {
	s := fmt.Sprintf("#%d %s %s %s", c.K, c.Verb, c.Kind, c.Name)
	if c.Fault != "" {
		s += " FAULT=" + c.Fault
	}
	return s
}

type BinderActor struct {
	API    *SimAPI
	Client client.WithWatch
	Rec    *controllers.BindRequestReconciler
	RRS    resourcereservation.Interface
	PodRec *controllers.PodReconciler

	mu    sync.Mutex
	calls int
	Plan  map[int]string // call index (1-based, per incarnation epoch) -> error | after | conflict | notfound | crash
	Log   []BinderCall
	// reservation agent behaviour: delay before the GPU index annotation appears; <0 = silent
	AgentDelay time.Duration
	agentIdx   map[string]int
	Fired      map[string]int
	// BindFail: pods whose pods/binding create fails, value = how many times (>= 99: always)
	BindFail map[string]int
	bindFailed map[string]int
	OnCrash func(id string, k int)
	// Gate: when set and enabled, every call of a reconcile goroutine parks until released (C17)
	Gate *gate
	// MidAt/MidHook (one shot): just before the MidAt-th API call of a reconcile the hook runs in the reconcile's
	// goroutine, i.e. while the reconcile is in flight (C12: a scheduler cycle in the middle of a bind)
	MidAt   int
	MidHook func()
}

func kindOf(obj any) string {
	switch obj.(type) {
	case *corev1.Pod, *corev1.PodList:
		return "pods"
	case *corev1.Node:
		return "nodes"
	case *corev1.ConfigMap:
		return "configmaps"
	case *bindv1alpha2.BindRequest:
		return "bindrequests"
	}
	return strings.ToLower(strings.TrimPrefix(fmt.Sprintf("%T", obj), "*v1."))
}

func (b *BinderActor) enter(verb string, obj any, name string) (int, string) {
	b.mu.Lock()
	defer b.mu.Unlock()
	b.calls++
	k := b.calls
	f := b.Plan[k]
	b.Log = append(b.Log, BinderCall{K: k, Verb: verb, Kind: kindOf(obj), Name: name, Fault: f})
	if f != "" {
		b.Fired[f+" "+verb]++
	}
	return k, f
}

func faultErr(f string, kind, name string) error {
	gr := schema.GroupResource{Resource: kind}
	switch f {
	case "conflict":
		return apierrors.NewConflict(gr, name, fmt.Errorf("simulated conflict"))
	case "notfound":
		return apierrors.NewNotFound(gr, name)
	default:
		return apierrors.NewInternalError(fmt.Errorf("simulated api failure"))
	}
}

func NewBinderActor(api *SimAPI, allocTimeout time.Duration, opts ...string) *BinderActor {
	b := &BinderActor{API: api, Plan: map[int]string{}, AgentDelay: time.Second, agentIdx: map[string]int{}, Fired: map[string]int{}}
	pre := func(verb string, obj any, name string) error {
		if b.Gate != nil {
			if id := currentReconcile(); id != "" {
				switch b.Gate.park(nil, id, verb+" "+kindOf(obj)+" "+name, "") {
				case "crash":
					b.crashHere(0)
				case "error":
					b.enter(verb, obj, name)
					return faultErr("error", kindOf(obj), name)
				}
			}
		}
		k, f := b.enter(verb, obj, name)
		b.mu.Lock()
		hook := b.MidHook
		if b.MidAt == 0 || k != b.MidAt {
			hook = nil
		} else {
			b.MidAt = 0
		}
		b.mu.Unlock()
		if hook != nil {
			hook()
		}
		switch f {
		case "crash":
			b.crashHere(k)
		case "error", "conflict", "notfound":
			return faultErr(f, kindOf(obj), name)
		}
		return nil
	}
	post := func(err error, verb string, obj any, name string) error {
		b.mu.Lock()
		f := b.Log[len(b.Log)-1].Fault
		if err != nil {
			b.Log[len(b.Log)-1].Err = err.Error()
		}
		b.mu.Unlock()
		if err == nil && f == "after" {
			return apierrors.NewTimeoutError("simulated lost response", 1)
		}
		return err
	}
	funcs := interceptor.Funcs{
		Get: func(ctx context.Context, c client.WithWatch, key client.ObjectKey, obj client.Object, opts ...client.GetOption) error {
			if err := pre("get", obj, key.Name); err != nil {
				return err
			}
			return post(c.Get(ctx, key, obj, opts...), "get", obj, key.Name)
		},
		List: func(ctx context.Context, c client.WithWatch, list client.ObjectList, opts ...client.ListOption) error {
			if err := pre("list", list, ""); err != nil {
				return err
			}
			return post(c.List(ctx, list, opts...), "list", list, "")
		},
		Create: func(ctx context.Context, c client.WithWatch, obj client.Object, opts ...client.CreateOption) error {
			if err := pre("create", obj, obj.GetName()); err != nil {
				return err
			}
			err := c.Create(ctx, obj, opts...)
			if err == nil {
				if p, ok := obj.(*corev1.Pod); ok && p.Namespace == ReservationNS {
					b.startAgent(p.DeepCopy())
				}
			}
			return post(err, "create", obj, obj.GetName())
		},
		Delete: func(ctx context.Context, c client.WithWatch, obj client.Object, opts ...client.DeleteOption) error {
			if err := pre("delete", obj, obj.GetName()); err != nil {
				return err
			}
			var err error
			if p, ok := obj.(*corev1.Pod); ok {
				// API-server semantics for pods (graceful deletion) live in SimAPI's shim
				do := &client.DeleteOptions{}
				do.ApplyOptions(opts)
				err = api.DeletePod(p.Namespace, p.Name, do.GracePeriodSeconds)
			} else {
				err = c.Delete(ctx, obj, opts...)
			}
			return post(err, "delete", obj, obj.GetName())
		},
		Patch: func(ctx context.Context, c client.WithWatch, obj client.Object, patch client.Patch, opts ...client.PatchOption) error {
			if err := pre("patch", obj, obj.GetName()); err != nil {
				return err
			}
			return post(c.Patch(ctx, obj, patch, opts...), "patch", obj, obj.GetName())
		},
		Update: func(ctx context.Context, c client.WithWatch, obj client.Object, opts ...client.UpdateOption) error {
			if err := pre("update", obj, obj.GetName()); err != nil {
				return err
			}
			return post(c.Update(ctx, obj, opts...), "update", obj, obj.GetName())
		},
		SubResourcePatch: func(ctx context.Context, c client.Client, sub string, obj client.Object, patch client.Patch, opts ...client.SubResourcePatchOption) error {
			if err := pre("patch/"+sub, obj, obj.GetName()); err != nil {
				return err
			}
			return post(c.SubResource(sub).Patch(ctx, obj, patch, opts...), "patch/"+sub, obj, obj.GetName())
		},
		SubResourceCreate: func(ctx context.Context, c client.Client, sub string, obj client.Object, subObj client.Object, opts ...client.SubResourceCreateOption) error {
			if err := pre("create/"+sub, obj, obj.GetName()); err != nil {
				return err
			}
			var err error
			if sub == "binding" {
				if b.BindFail[obj.GetName()] > b.bindFailed[obj.GetName()] {
					if b.bindFailed == nil {
						b.bindFailed = map[string]int{}
					}
					if b.BindFail[obj.GetName()] < 99 {
						b.bindFailed[obj.GetName()]++
					}
					b.Fired["bind-subresource-failure"]++
					return post(apierrors.NewInternalError(fmt.Errorf("simulated bind failure")), "create/"+sub, obj, obj.GetName())
				}
				err = api.BindPod(obj.(*corev1.Pod), subObj.(*corev1.Binding))
			} else {
				err = c.SubResource(sub).Create(ctx, obj, subObj, opts...)
			}
			return post(err, "create/"+sub, obj, obj.GetName())
		},
		Watch: func(ctx context.Context, c client.WithWatch, obj client.ObjectList, opts ...client.ListOption) (watch.Interface, error) {
			if err := pre("watch", obj, ""); err != nil {
				return nil, err
			}
			w, err := c.Watch(ctx, obj, opts...)
			if err == nil {
				// a real API server applies the field selector; the fake does not
				lo := &client.ListOptions{}
				lo.ApplyOptions(opts)
				if lo.FieldSelector != nil && !lo.FieldSelector.Empty() {
					if name, ok := lo.FieldSelector.RequiresExactMatch("metadata.name"); ok {
						w = watch.Filter(w, func(e watch.Event) (watch.Event, bool) {
							if m, ok := e.Object.(interface{ GetName() string }); ok {
								return e, m.GetName() == name
							}
							return e, true
						})
					}
				}
			}
			return w, post(err, "watch", obj, "")
		},
	}
	b.Client = crfake.NewClientBuilder().WithScheme(Scheme()).WithObjectTracker(api.Tracker).
		WithStatusSubresource(&bindv1alpha2.BindRequest{}, &corev1.Pod{}).
		WithIndex(&corev1.Pod{}, "spec.nodeName", func(o client.Object) []string { return []string{o.(*corev1.Pod).Spec.NodeName} }).
		WithIndex(&corev1.Pod{}, "metadata.name", func(o client.Object) []string { return []string{o.GetName()} }).
		WithInterceptorFuncs(funcs).Build()
	b.RRS = resourcereservation.NewService(false, b.Client, "reservation-image", allocTimeout, ReservationNS, "sa", ReservationApp, "kai-scale-adjust", "", nil)
	plugins := binderplugins.New()
	for _, o := range opts {
		if o == "dra" {
			plugins.RegisterPlugin(newDRABinderPlugin(b))
		}
		if o == "k8s-plugins" {
			plugins.RegisterPlugin(newK8sPlugins(b))
		}
	}
	plugins.RegisterPlugin(gpusharing.New(b.Client, false))
	bnd := binding.NewBinder(b.Client, b.RRS, plugins)
	b.Rec = controllers.NewBindRequestReconciler(b.Client, Scheme(), record.NewFakeRecorder(10000), &controllers.ReconcilerParams{MaxConcurrentReconciles: 1, RateLimiterBaseDelaySeconds: 1, RateLimiterMaxDelaySeconds: 60}, bnd, b.RRS)
	return b
}

// startAgent: the GPU reservation pod's own agent, which reports the GPU index it was given.
func (b *BinderActor) startAgent(p *corev1.Pod) {
	if b.AgentDelay < 0 {
		return
	}
	delay := b.AgentDelay
	// the device is assigned when the pod starts (deterministically, in creation order) and
	// published by the agent after its delay
	used := map[string]bool{}
	for _, q := range b.API.Pods() {
		if IsReservationPod(q) && q.Spec.NodeName == p.Spec.NodeName && q.Name != p.Name {
			used[q.Annotations[GPUIndexAnnot]] = true
			used[q.Annotations["sim/assigned-index"]] = true
		}
	}
	idx := 0
	for used[strconv.Itoa(idx)] {
		idx++
	}
	if cur := b.API.Pod(p.Namespace, p.Name); cur != nil {
		cur = cur.DeepCopy()
		if cur.Annotations == nil {
			cur.Annotations = map[string]string{}
		}
		cur.Annotations["sim/assigned-index"] = strconv.Itoa(idx)
		_ = b.API.Tracker.Update(PodGVR, cur, cur.Namespace)
	}
	go func() {
		time.Sleep(delay)
		cur := b.API.Pod(p.Namespace, p.Name)
		if cur == nil {
			return
		}
		cur = cur.DeepCopy()
		if cur.Annotations == nil {
			cur.Annotations = map[string]string{}
		}
		cur.Annotations[GPUIndexAnnot] = strconv.Itoa(idx)
		if os.Getenv("KAISIM_DEBUG_C17") != "" {
			fmt.Printf("AGENT t=%s %s group=%s index=%d\n", time.Now().Format("15:04:05"), cur.Name, cur.Labels[GPUGroupLabel], idx)
		}
		cur.Status.Phase = corev1.PodRunning
		_ = b.API.Tracker.Update(PodGVR, cur, cur.Namespace)
	}()
}

// Reconcile runs one reconcile of a BindRequest to completion (or to the crash point) and returns
// the outcome. The caller's goroutine blocks on a channel, so simulated time advances meanwhile.
func (b *BinderActor) Reconcile(ns, name string) (res ctrl.Result, err error, crashedAt int) {
	done := make(chan struct{})
	crashed := make(chan int, 1)
	b.mu.Lock()
	b.OnCrash = func(_ string, k int) { crashed <- k }
	b.mu.Unlock()
	var r ctrl.Result
	var e error
	go func() {
		r, e = b.Rec.Reconcile(context.Background(), ctrl.Request{NamespacedName: types.NamespacedName{Namespace: ns, Name: name}})
		close(done)
	}()
	select {
	case <-done:
		return r, e, 0
	case k := <-crashed:
		if k == 0 {
			k = -1
		}
		return ctrl.Result{}, nil, k
	}
}

func (b *BinderActor) Sync() error { return b.RRS.Sync(context.Background()) }

// ResetCalls starts a new numbering epoch (a new reconcile / a restarted binder).
func (b *BinderActor) ResetCalls() {
	b.mu.Lock()
	b.calls = 0
	b.Log = nil
	b.mu.Unlock()
}

func (b *BinderActor) CallLog() []BinderCall {
	b.mu.Lock()
	defer b.mu.Unlock()
	return append([]BinderCall(nil), b.Log...)
}

var _ = sort.Strings

// ---- DRA: the binder's real dynamicresources plugin (claim reservation at bind time) -------------------------------
// The k8s-plugins wrapper (which also builds the volume-binding plugin and needs started informers) is re-stated in ten
// lines: PreBind calls the real plugin's Bind for pods that reference claims; the plugin itself is the repository's
// code. Its typed clientset calls are routed through the same call counter / fault plan as the controller-runtime client.

type draBinderPlugin struct {
	real k8splugincommon.K8sPlugin
}

func newDRABinderPlugin(b *BinderActor) *draBinderPlugin {
	cl := b.API.ClientsFor("binder-dra")
	b.API.mu.Lock()
	prevDecide := b.API.Decide
	b.API.Decide = func(c *Call, nth int) string {
		if c.Actor != "binder-dra" {
			if prevDecide != nil {
				return prevDecide(c, nth)
			}
			return ""
		}
		verb := c.Verb
		if c.Sub != "" {
			verb += "/" + c.Sub
		}
		b.mu.Lock()
		b.calls++
		k := b.calls
		f := b.Plan[k]
		b.Log = append(b.Log, BinderCall{K: k, Verb: verb, Kind: c.Resource, Name: c.Name, Fault: f})
		if f != "" {
			b.Fired[f+" "+verb]++
		}
		b.mu.Unlock()
		switch f {
		case "crash":
			b.crashHere(k)
		case "after":
			return "after:timeout"
		case "error", "conflict", "notfound":
			return f
		}
		return ""
	}
	b.API.mu.Unlock()
	handle := k8s_utils.NewFrameworkHandle(cl.Kube, informers.NewSharedInformerFactory(cl.Kube, 0), nil)
	real, err := binderdra.NewDynamicResourcesPlugin(handle, &k8splfeature.Features{EnableDynamicResourceAllocation: true}, 30)
	must(err)
	return &draBinderPlugin{real: real}
}

// newK8sPlugins: the binder's real k8s-plugins wrapper (volume binding + dynamicresources behind one plugin, registered
// before gpusharing as cmd/binder does). Its typed clientset calls count as calls of the attempt like the DRA stub's.
func newK8sPlugins(b *BinderActor) binderplugins.Plugin {
	d := newDRABinderPlugin(b) // installs the call routing for the "binder-dra" clientset
	_ = d
	cl := b.API.ClientsFor("binder-dra")
	p, err := k8splugins.New(cl.Kube, informers.NewSharedInformerFactory(cl.Kube, 0), 30)
	must(err)
	return p
}

func (p *draBinderPlugin) Name() string { return "k8s-plugins" }
func (p *draBinderPlugin) PreBind(ctx context.Context, pod *corev1.Pod, node *corev1.Node, br *bindv1alpha2.BindRequest, _ *bindstate.BindingState) error {
	if !p.real.IsRelevant(pod) {
		return nil
	}
	return p.real.Bind(ctx, pod, br, nil)
}
func (p *draBinderPlugin) PostBind(ctx context.Context, pod *corev1.Pod, node *corev1.Node, br *bindv1alpha2.BindRequest, _ *bindstate.BindingState) {
}
func (p *draBinderPlugin) Rollback(ctx context.Context, pod *corev1.Pod, node *corev1.Node, br *bindv1alpha2.BindRequest, _ *bindstate.BindingState) error {
	if p.real.IsRelevant(pod) {
		p.real.UnAllocate(ctx, pod, node.Name, nil)
	}
	return nil
}
