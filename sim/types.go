package kaisim

import "github.com/NVIDIA/KAI-scheduler/pkg/scheduler/api/common_info"

type (
	podKey     = common_info.PodID
	podGroupID = common_info.PodGroupID
	queueID    = common_info.QueueID
)
