package kaisim

import (
	"fmt"

	"pgregory.net/rapid"
)

// GenUnobstructedScript (C05 part B): identical nodes, flat queues with GPU quotas, only single-pod
// workloads of one shape; the cluster is (nearly) full of running pods, some queues above their quota
// with preemptible pods, and one or two workloads are pending.
func GenUnobstructedScript(t *rapid.T, o GenOpts) *Script {
	s := &Script{Prop: "C05", Profile: "unobstructed"}
	s.MapSeed = rapid.Uint64Range(1, 1<<62).Draw(t, "mapseed")
	o.MinRuntime = false
	s.Config = genConfig(t, o)
	s.Config.MinRuntimeArgs = nil
	if chance(t, "uallactions", 70) {
		s.Config.Actions = []string{"allocate", "consolidation", "reclaim", "preempt", "stalegangeviction"}
	}
	nn := rapid.IntRange(1, 3).Draw(t, "unodes")
	g := int64(pick(t, "ugpus", 2, 4, 8))
	slots := nn * int(g)
	for i := 0; i < nn; i++ {
		s.World.Nodes = append(s.World.Nodes, NodeSpec{Name: fmt.Sprintf("n%d", i), CPUm: 64000, MemMi: 262144, Pods: 110, GPUs: g})
	}
	nq := rapid.IntRange(2, 3).Draw(t, "uqueues")
	var leaves []string
	for i := 0; i < nq; i++ {
		q := QueueSpec{Name: fmt.Sprintf("q%d", i), GPU: QRes{Quota: float64(rapid.IntRange(0, slots).Draw(t, "uquota")), Limit: -1, Weight: pick(t, "uw", 0.0, 1.0, 2.0)},
			CPU: QRes{Quota: -1, Limit: -1, Weight: 1}, Mem: QRes{Quota: -1, Limit: -1, Weight: 1}}
		if chance(t, "ulimit", 15) {
			q.GPU.Limit = float64(rapid.IntRange(1, slots).Draw(t, "ulim"))
		}
		s.World.Queues = append(s.World.Queues, q)
		leaves = append(leaves, q.Name)
	}
	s.World.PriorityClasses = []PriorityClassSpec{{Name: "train", Value: 50}, {Name: "build", Value: 100}, {Name: "inference", Value: 125}, {Name: "low", Value: 25}}
	leave := rapid.IntRange(0, 1).Draw(t, "uleave")
	if chance(t, "ufull", 70) {
		leave = 0
	}
	k := 0
	for i := 0; i < nn; i++ {
		for j := 0; j < int(g); j++ {
			if k >= slots-leave {
				break
			}
			w := WorkloadSpec{Name: fmt.Sprintf("r%d", k), Queue: pick(t, "rq", leaves...), MinMember: 1, AgeSec: int64(rapid.IntRange(1, 5000).Draw(t, "rage")),
				PriorityClass: pick(t, "rpc", "train", "low", "build", "inference", "")}
			if chance(t, "rpre", 25) {
				w.Preemptibility = pick(t, "rprev", "preemptible", "non-preemptible")
			}
			ago := int64(rapid.IntRange(100, 10000).Draw(t, "rls"))
			w.LastStartAgo = &ago
			w.Pods = []PodSpec{{Name: fmt.Sprintf("r%d-p0", k), CPUm: 500, MemMi: 512, GPUs: 1, State: "running", Node: fmt.Sprintf("n%d", i)}}
			s.World.Workloads = append(s.World.Workloads, w)
			k++
		}
	}
	np := rapid.IntRange(1, 3).Draw(t, "upending")
	for i := 0; i < np; i++ {
		w := WorkloadSpec{Name: fmt.Sprintf("p%d", i), Queue: pick(t, "pq", leaves...), MinMember: 1, AgeSec: int64(rapid.IntRange(1, 5000).Draw(t, "page")),
			PriorityClass: pick(t, "ppc", "train", "low", "build", "inference", "")}
		if chance(t, "ppre", 25) {
			w.Preemptibility = pick(t, "pprev", "preemptible", "non-preemptible")
		}
		w.Pods = []PodSpec{{Name: fmt.Sprintf("p%d-p0", i), CPUm: 500, MemMi: 512, GPUs: 1, State: "pending"}}
		s.World.Workloads = append(s.World.Workloads, w)
	}
	s.Ops = []Op{{Kind: "cycle"}, {Kind: "binder"}, {Kind: "kubelet"}}
	// later cycles after the situation changed: a quota is edited, a pod finishes or is deleted
	for c := 0; c < rapid.IntRange(0, 2).Draw(t, "umore"); c++ {
		switch pick(t, "uchange", "quota", "quota", "complete", "delete", "none") {
		case "quota":
			s.Ops = append(s.Ops, Op{Kind: "set_quota", Arg: pick(t, "uq", leaves...), N: rapid.IntRange(0, slots).Draw(t, "unewquota")})
		case "complete":
			s.Ops = append(s.Ops, Op{Kind: "complete", Arg: fmt.Sprintf("r%d-p0", rapid.IntRange(0, max(0, k-1)).Draw(t, "ucomp"))})
		case "delete":
			s.Ops = append(s.Ops, Op{Kind: "delete", Arg: fmt.Sprintf("r%d-p0", rapid.IntRange(0, max(0, k-1)).Draw(t, "udel"))})
		}
		s.Ops = append(s.Ops, Op{Kind: "advance", N: pick(t, "uadv", 1, 61)}, Op{Kind: "cycle"}, Op{Kind: "binder"}, Op{Kind: "kubelet"})
	}
	return s
}

// GenUnobstructedDepartmentsScript: two departments with one or two leaf queues each (children's quotas may
// over-subscribe their department), one shape of single-pod 1-GPU workloads filling uniform nodes, a few pending
// workloads spread over the leaves. Reclaim between sibling leaves of one department is judged by
// ProgressOracle.departmentReclaim; workloads of the other department that legitimately fail are the obstruction.
func GenUnobstructedDepartmentsScript(t *rapid.T, o GenOpts) *Script {
	s := &Script{Prop: "C05", Profile: "unobstructed-departments"}
	s.MapSeed = rapid.Uint64Range(1, 1<<62).Draw(t, "mapseed")
	o.MinRuntime = false
	s.Config = genConfig(t, o)
	s.Config.MinRuntimeArgs = nil
	if chance(t, "dallactions", 70) {
		s.Config.Actions = []string{"allocate", "consolidation", "reclaim", "preempt", "stalegangeviction"}
	}
	nn := rapid.IntRange(1, 2).Draw(t, "dnodes")
	g := int64(pick(t, "dgpus", 3, 4, 5, 6))
	slots := nn * int(g)
	for i := 0; i < nn; i++ {
		s.World.Nodes = append(s.World.Nodes, NodeSpec{Name: fmt.Sprintf("n%d", i), CPUm: 64000, MemMi: 262144, Pods: 110, GPUs: g})
	}
	unl := QRes{Quota: -1, Limit: -1, Weight: 1}
	var leaves []string
	d0 := rapid.IntRange(1, slots-1).Draw(t, "d0quota")
	for d, dq := range []int{d0, slots - d0} {
		if chance(t, "dslack", 25) {
			dq = rapid.IntRange(0, slots).Draw(t, "dquota")
		}
		s.World.Queues = append(s.World.Queues, QueueSpec{Name: fmt.Sprintf("d%d", d), GPU: QRes{Quota: float64(dq), Limit: -1, Weight: pick(t, "dw", 0.0, 1.0)}, CPU: unl, Mem: unl})
		for l := 0; l < rapid.IntRange(1, 2).Draw(t, "dleaves")+d%2*0; l++ {
			name := fmt.Sprintf("d%dq%d", d, l)
			s.World.Queues = append(s.World.Queues, QueueSpec{Name: name, Parent: fmt.Sprintf("d%d", d), GPU: QRes{Quota: float64(rapid.IntRange(0, max(1, dq)).Draw(t, "lquota")), Limit: -1, Weight: pick(t, "lw", 0.0, 1.0)}, CPU: unl, Mem: unl})
			leaves = append(leaves, name)
		}
	}
	s.World.PriorityClasses = []PriorityClassSpec{{Name: "train", Value: 50}, {Name: "build", Value: 100}, {Name: "inference", Value: 125}, {Name: "low", Value: 25}}
	solid := map[string]bool{}
	if chance(t, "dsolid", 50) {
		solid[pick(t, "dsolidwhich", "d0", "d1")] = true
	}
	leave := 0
	if chance(t, "dfree", 15) {
		leave = 1
	}
	k := 0
	for i := 0; i < nn; i++ {
		for j := 0; j < int(g) && k < slots-leave; j++ {
			w := WorkloadSpec{Name: fmt.Sprintf("r%d", k), Queue: pick(t, "rq", leaves...), MinMember: 1, AgeSec: int64(rapid.IntRange(1, 5000).Draw(t, "rage")), PriorityClass: pick(t, "rpc", "train", "train", "low")}
			if solid[w.Queue[:2]] { // non-preemptible: no victim candidates in this department
				if chance(t, "rsolidbylabel", 50) {
					w.Preemptibility = "non-preemptible"
				} else {
					w.PriorityClass = "build"
				}
			}
			ago := int64(rapid.IntRange(100, 10000).Draw(t, "rls"))
			w.LastStartAgo = &ago
			w.Pods = []PodSpec{{Name: fmt.Sprintf("r%d-p0", k), CPUm: 500, MemMi: 512, GPUs: 1, State: "running", Node: fmt.Sprintf("n%d", i)}}
			s.World.Workloads = append(s.World.Workloads, w)
			k++
		}
	}
	for i := 0; i < rapid.IntRange(1, 4).Draw(t, "dpending"); i++ {
		w := WorkloadSpec{Name: fmt.Sprintf("p%d", i), Queue: pick(t, "pq", leaves...), MinMember: 1, AgeSec: int64(rapid.IntRange(1, 5000).Draw(t, "page")), PriorityClass: pick(t, "ppc", "train", "train", "low")}
		if solid[w.Queue[:2]] {
			w.Preemptibility = "non-preemptible" // same priority class (same scheduling signature) as the other department's jobs
		}
		w.Pods = []PodSpec{{Name: fmt.Sprintf("p%d-p0", i), CPUm: 500, MemMi: 512, GPUs: 1, State: "pending"}}
		s.World.Workloads = append(s.World.Workloads, w)
	}
	s.Ops = []Op{{Kind: "cycle"}, {Kind: "binder"}, {Kind: "kubelet"}}
	for c := 0; c < rapid.IntRange(0, 2).Draw(t, "dmore"); c++ {
		switch pick(t, "dchange", "quota", "quota", "complete", "none") {
		case "quota":
			s.Ops = append(s.Ops, Op{Kind: "set_quota", Arg: pick(t, "dq", leaves...), N: rapid.IntRange(0, slots).Draw(t, "dnewquota")})
		case "complete":
			s.Ops = append(s.Ops, Op{Kind: "complete", Arg: fmt.Sprintf("r%d-p0", rapid.IntRange(0, max(0, k-1)).Draw(t, "dcomp"))})
		}
		s.Ops = append(s.Ops, Op{Kind: "advance", N: pick(t, "dadv", 1, 61)}, Op{Kind: "cycle"}, Op{Kind: "binder"}, Op{Kind: "kubelet"})
	}
	return s
}
