package kaisim

// Seeded generators (pgregory.net/rapid is the only choice source, so failing scripts shrink).

import (
	"fmt"
	"strconv"

	"pgregory.net/rapid"
)

type GenOpts struct {
	MaxNodes       int
	MaxWorkloads   int
	MaxPodsPerWL   int
	Fractions      bool // fractional / gpu-memory / multi-fraction requests
	MIG            bool
	Gangs          bool
	SubGroups      bool
	Running        bool // some workloads start as running (placed feasibly by the generator)
	Terminating    bool // some running pods start terminating
	OtherSched     bool // foreign pods occupying nodes
	Hierarchy      int  // max queue levels (1..3)
	Limits         bool
	MinRuntime     bool
	Priorities     bool
	NonPreemptible bool
	TightPods      bool // small pod-slot capacity
	Constraints    bool // selectors, taints, affinities
	Topology       bool
	Faults         bool // scheduler API write faults
	BindFailures   bool
	Completions    bool // pods complete / are deleted between cycles
	MinCycles      int
	MaxCycles      int
	Twins          bool     // duplicate pending workloads with another age / priority (C16)
	NoStaleGrace   bool
	Actions        []string // nil = all
	FixedConfig    bool
	Overhead       bool // some pods carry spec.overhead (RuntimeClass)
	BestEffort     bool // some cpu-only pods have no requests at all (BestEffort QoS): only a pod slot is needed
	DRA            bool // some worlds have DRA devices and resource claims
	SchedCrash     bool // the scheduler process may crash in the middle of a cycle and restart
	MidEvict       bool // a victim may finish or be deleted between the snapshot and its eviction
}

func pick[T any](t *rapid.T, label string, xs ...T) T {
	return xs[rapid.IntRange(0, len(xs)-1).Draw(t, label)]
}

func chance(t *rapid.T, label string, pct int) bool {
	return rapid.IntRange(0, 99).Draw(t, label) < pct
}

var fractionChoices = []string{"0.5", "0.25", "0.3", "0.7", "0.1", "1", "0.55", "0.45"}
// incl. requests that are a whole multiple of a small device's memory (16000 on an 8000 MiB device, 32000 on 16000)
var gpuMemChoices = []int64{2000, 4000, 5000, 8000, 10000, 3300, 16000, 20000, 32000}

func genNodes(t *rapid.T, o GenOpts) []NodeSpec {
	n := rapid.IntRange(1, o.MaxNodes).Draw(t, "nodes")
	var out []NodeSpec
	for i := 0; i < n; i++ {
		ns := NodeSpec{Name: fmt.Sprintf("n%d", i)}
		ns.CPUm = int64(pick(t, "cpu", 2000, 4000, 8000, 16000))
		ns.MemMi = int64(pick(t, "mem", 4096, 8192, 16384, 65536))
		if o.TightPods {
			ns.Pods = int64(rapid.IntRange(2, 8).Draw(t, "podslots"))
		} else {
			ns.Pods = int64(pick(t, "podslots", 6, 10, 30, 110))
		}
		ns.GPUs = int64(pick(t, "gpus", 0, 1, 2, 2, 4, 4, 8))
		if ns.GPUs > 0 {
			ns.GPUMemMi = pick(t, "gpumem", int64(0), 8000, 10000, 16000, 16384, 40000)
		}
		if o.MIG && ns.GPUs == 0 && chance(t, "mignode", 40) {
			ns.MIG = map[string]int64{"nvidia.com/mig-1g.5gb": int64(rapid.IntRange(1, 7).Draw(t, "mig1g"))}
			if chance(t, "mig2", 50) {
				ns.MIG["nvidia.com/mig-2g.10gb"] = int64(rapid.IntRange(1, 3).Draw(t, "mig2g"))
			}
			ns.Labels = map[string]string{"node-role.kubernetes.io/mig-enabled": "true"}
			ns.MigStrategy = "mixed"
		}
		out = append(out, ns)
	}
	return out
}

func genQRes(t *rapid.T, label string, o GenOpts, limitChoices []float64, quotaChoices []float64) QRes {
	unit := 1.0
	q := QRes{Quota: pick(t, label+"quota", quotaChoices...) * unit, Limit: -1, Weight: pick(t, label+"w", 1.0, 1.0, 2.0, 0.0, 3.0, 0.5)}
	if o.Limits && chance(t, label+"haslimit", 15) {
		q.Limit = pick(t, label+"limit", limitChoices...)
	}
	return q
}

func genQueues(t *rapid.T, o GenOpts) (all []QueueSpec, leaves []string) {
	levels := rapid.IntRange(1, o.Hierarchy).Draw(t, "qlevels")
	quotaG := []float64{0, 0, 1, 2, 4, -1}
	quotaC := []float64{0, 0, 2000, 4000, 16000, -1}
	quotaM := []float64{0, 0, 4096, 16384, -1}
	mk := func(name, parent string) QueueSpec {
		q := QueueSpec{Name: name, Parent: parent}
		q.GPU = genQRes(t, "g", o, []float64{0, 0.5, 1, 2, 3, 4, 8}, quotaG)
		q.CPU = genQRes(t, "c", o, []float64{0, 1000, 2000, 4000, 8000, 16000}, quotaC)
		q.Mem = genQRes(t, "m", o, []float64{0, 1024, 4096, 16384, 65536}, quotaM)
		if o.Priorities && chance(t, "qprio", 30) {
			p := pick(t, "qpriov", 50, 100, 200)
			q.Priority = &p
		}
		if o.MinRuntime && chance(t, "qminrt", 40) {
			q.PreemptMinRuntime = pick(t, "pmr", "0s", "30s", "10m", "2h")
			q.ReclaimMinRuntime = pick(t, "rmr", "0s", "30s", "10m", "2h")
		}
		return q
	}
	if levels == 1 {
		n := rapid.IntRange(1, 4).Draw(t, "nleaf")
		for i := 0; i < n; i++ {
			q := mk(fmt.Sprintf("q%d", i), "")
			all = append(all, q)
			leaves = append(leaves, q.Name)
		}
		return
	}
	nd := rapid.IntRange(1, 2).Draw(t, "ndept")
	for d := 0; d < nd; d++ {
		dn := fmt.Sprintf("d%d", d)
		all = append(all, mk(dn, ""))
		nc := rapid.IntRange(1, 3).Draw(t, "nchild")
		for c := 0; c < nc; c++ {
			cn := fmt.Sprintf("%sq%d", dn, c)
			if levels == 3 && chance(t, "mid", 50) {
				all = append(all, mk(cn, dn))
				ng := rapid.IntRange(1, 2).Draw(t, "ngrand")
				for g := 0; g < ng; g++ {
					gn := fmt.Sprintf("%sg%d", cn, g)
					all = append(all, mk(gn, cn))
					leaves = append(leaves, gn)
				}
			} else {
				all = append(all, mk(cn, dn))
				leaves = append(leaves, cn)
			}
		}
	}
	return
}

func genPodShape(t *rapid.T, o GenOpts, hasMIGNode bool) PodSpec {
	p := PodSpec{State: "pending"}
	p.CPUm = int64(pick(t, "pcpu", 100, 500, 1000, 2000, 4000))
	p.MemMi = int64(pick(t, "pmem", 128, 1024, 4096, 8192))
	if o.Overhead && chance(t, "overhead", 20) { // RuntimeClass overhead
		p.OverheadCPUm = int64(pick(t, "ohcpu", 0, 250, 500, 1000))
		p.OverheadMemMi = int64(pick(t, "ohmem", 0, 128, 512, 2048))
	}
	kind := pick(t, "gpukind", "whole", "whole", "cpu", "frac", "frac", "mem", "multi", "mig")
	switch kind {
	case "whole":
		p.GPUs = int64(pick(t, "ngpu", 1, 1, 1, 2, 4))
	case "cpu":
		if o.BestEffort && chance(t, "besteffort", 40) {
			p.CPUm, p.MemMi = 0, 0
		}
	case "frac":
		if !o.Fractions {
			p.GPUs = 1
			break
		}
		p.Fraction = pick(t, "frac", fractionChoices...)
	case "mem":
		if !o.Fractions {
			p.GPUs = 1
			break
		}
		p.GPUMemMi = pick(t, "gmem", gpuMemChoices...)
	case "multi":
		if !o.Fractions {
			p.GPUs = 2
			break
		}
		p.NumDevices = int64(pick(t, "ndev", 2, 2, 3))
		if chance(t, "multimem", 30) {
			p.GPUMemMi = pick(t, "gmem", gpuMemChoices...)
		} else {
			p.Fraction = pick(t, "frac", fractionChoices...)
		}
	case "mig":
		if !o.MIG || !hasMIGNode {
			p.GPUs = 1
			break
		}
		p.MIG = map[string]int64{pick(t, "migprof", "nvidia.com/mig-1g.5gb", "nvidia.com/mig-2g.10gb"): int64(pick(t, "nmig", 1, 1, 2))}
	}
	return p
}

func genWorkloads(t *rapid.T, o GenOpts, leaves []string, nodes []NodeSpec, pcs []PriorityClassSpec) []WorkloadSpec {
	n := rapid.IntRange(1, o.MaxWorkloads).Draw(t, "workloads")
	hasMIG := false
	for _, nd := range nodes {
		if len(nd.MIG) > 0 {
			hasMIG = true
		}
	}
	var out []WorkloadSpec
	for i := 0; i < n; i++ {
		w := WorkloadSpec{Name: fmt.Sprintf("w%d", i), Queue: pick(t, "wq", leaves...)}
		w.AgeSec = int64(rapid.IntRange(1, 5000).Draw(t, "age"))
		if o.Priorities && len(pcs) > 0 && chance(t, "haspc", 70) {
			w.PriorityClass = pcs[rapid.IntRange(0, len(pcs)-1).Draw(t, "pc")].Name
		}
		if o.NonPreemptible && chance(t, "np", 25) {
			w.Preemptibility = pick(t, "preempt", "non-preemptible", "preemptible")
		}
		size := 1
		if o.Gangs && chance(t, "gang", 45) {
			size = rapid.IntRange(2, o.MaxPodsPerWL).Draw(t, "size")
		}
		shape := genPodShape(t, o, hasMIG)
		hetero := o.Gangs && chance(t, "hetero", 20)
		for j := 0; j < size; j++ {
			p := shape
			if hetero && j > 0 {
				p = genPodShape(t, o, hasMIG)
			}
			p.Name = fmt.Sprintf("w%d-p%d", i, j)
			w.Pods = append(w.Pods, p)
		}
		w.MinMember = 1
		if size > 1 {
			w.MinMember = int32(rapid.IntRange(1, size).Draw(t, "minmember"))
		}
		if o.SubGroups && size >= 2 && chance(t, "subgroups", 35) {
			nsg := rapid.IntRange(1, min(3, size)).Draw(t, "nsg")
			counts := make([]int, nsg)
			for j := range w.Pods {
				k := j % nsg
				w.Pods[j].SubGroup = fmt.Sprintf("sg%d", k)
				counts[k]++
			}
			total := int32(0)
			for k := 0; k < nsg; k++ {
				mm := int32(rapid.IntRange(1, counts[k]).Draw(t, "sgmin"))
				w.SubGroups = append(w.SubGroups, SubGroupSpec{Name: fmt.Sprintf("sg%d", k), MinMember: mm})
				total += mm
			}
			w.MinMember = total
			// hierarchical sub-groups: every pod set (or pair of pod sets) gets a parent set under the root
			if o.SubGroups && nsg >= 2 && chance(t, "hierarchy", 30) {
				np := rapid.IntRange(2, nsg).Draw(t, "nparents")
				for k := 0; k < nsg; k++ {
					w.SubGroups[k].Parent = fmt.Sprintf("set%d", k%np)
				}
				for k := 0; k < np; k++ {
					w.SubGroups = append(w.SubGroups, SubGroupSpec{Name: fmt.Sprintf("set%d", k), MinMember: 1})
				}
			}
		}
		out = append(out, w)
	}
	return out
}

// placeInitial turns some workloads into running ones, placing their pods feasibly (generator's
// own first-fit over the reference capacity model), so that initial states are never oversubscribed.
func placeInitial(t *rapid.T, o GenOpts, w *World) {
	type nodeState struct {
		cpu, mem, pods, gpus int64
		ext                  map[string]int64
		groups               map[string]float64 // group -> used portion
		gmem                 int64
		ngroups              int
	}
	st := map[string]*nodeState{}
	for _, n := range w.Nodes {
		ext := map[string]int64{}
		for k, v := range n.MIG {
			ext[k] = v
		}
		gm := n.GPUMemMi
		st[n.Name] = &nodeState{cpu: n.CPUm, mem: n.MemMi * 1024 * 1024, pods: n.Pods, gpus: n.GPUs, ext: ext, groups: map[string]float64{}, gmem: gm}
	}
	gid := 0
	for wi := range w.Workloads {
		wl := &w.Workloads[wi]
		if !chance(t, "startrunning", 45) {
			continue
		}
		// place at least MinMember pods or none
		type placement struct {
			node   string
			groups []string
		}
		placed := map[int]placement{}
		// snapshot for rollback
		backup := map[string]nodeState{}
		for k, v := range st {
			c := *v
			c.ext = map[string]int64{}
			for a, b := range v.ext {
				c.ext[a] = b
			}
			c.groups = map[string]float64{}
			for a, b := range v.groups {
				c.groups[a] = b
			}
			backup[k] = c
		}
		want := len(wl.Pods)
		if len(wl.SubGroups) == 0 && chance(t, "partial", 30) {
			want = rapid.IntRange(int(wl.MinMember), len(wl.Pods)).Draw(t, "nrunning")
		}
		// a workload with several pod sets may have lost all pods of some of them (they are pending again)
		skipSet := map[string]bool{}
		if len(wl.SubGroups) > 1 && chance(t, "setdown", 40) {
			for k, sg := range wl.SubGroups {
				if k > 0 && chance(t, "setdownk", 60) {
					skipSet[sg.Name] = true
				}
			}
		}
		for pi := 0; pi < want; pi++ {
			p := &wl.Pods[pi]
			if skipSet[p.SubGroup] {
				continue
			}
			start := rapid.IntRange(0, len(w.Nodes)-1).Draw(t, "startnode")
			for k := 0; k < len(w.Nodes); k++ {
				n := w.Nodes[(start+k)%len(w.Nodes)]
				s := st[n.Name]
				if n.Unschedulable || n.NotReady || len(n.Taints) > 0 {
					continue
				}
				if s.cpu < p.CPUm+p.OverheadCPUm || s.mem < (p.MemMi+p.OverheadMemMi)*1024*1024 || s.pods < 1 {
					continue
				}
				ok := true
				for mk, mv := range p.MIG {
					if s.ext[mk] < mv {
						ok = false
					}
				}
				if !ok {
					continue
				}
				shared := p.Fraction != "" || p.GPUMemMi > 0
				var groups []string
				if shared {
					if len(n.MIG) > 0 {
						continue
					}
					portion := 0.0
					if p.GPUMemMi > 0 {
						if s.gmem == 0 {
							continue // memory request needs the node label
						}
						portion = float64(p.GPUMemMi) / float64(s.gmem)
					} else {
						portion, _ = strconv.ParseFloat(p.Fraction, 64)
					}
					if portion > 1 {
						continue
					}
					ndev := int(p.NumDevices)
					if ndev == 0 {
						ndev = 1
					}
					// choose existing groups with room, then fresh GPUs
					newGroups := 0
					for _, g := range sortedKeys(s.groups) {
						if len(groups) < ndev && s.groups[g]+portion <= 1.0+1e-9 {
							groups = append(groups, g)
						}
					}
					for len(groups) < ndev && s.gpus-int64(newGroups) > 0 {
						gid++
						groups = append(groups, fmt.Sprintf("g%d", gid))
						newGroups++
					}
					if len(groups) < ndev || s.pods < int64(1+newGroups) {
						continue
					}
					for _, g := range groups {
						if _, ok := s.groups[g]; !ok {
							s.gpus--
							s.pods--
						}
						s.groups[g] += portion
					}
				} else {
					if len(n.MIG) > 0 && p.GPUs > 0 {
						continue
					}
					if s.gpus < p.GPUs {
						continue
					}
					s.gpus -= p.GPUs
				}
				s.cpu -= p.CPUm + p.OverheadCPUm
				s.mem -= (p.MemMi + p.OverheadMemMi) * 1024 * 1024
				s.pods--
				for mk, mv := range p.MIG {
					s.ext[mk] -= mv
				}
				placed[pi] = placement{n.Name, groups}
				break
			}
		}
		// gang rule for the initial state: every pod set reaches its minimum, else roll back
		okGang := len(placed) >= int(wl.MinMember)
		if len(wl.SubGroups) > 0 {
			cnt := map[string]int{}
			for pi := range placed {
				cnt[wl.Pods[pi].SubGroup]++
			}
			okGang = len(placed) > 0
			isParent := map[string]bool{}
			for _, sg := range wl.SubGroups {
				if sg.Parent != "" {
					isParent[sg.Parent] = true
				}
			}
			for _, sg := range wl.SubGroups {
				if cnt[sg.Name] < int(sg.MinMember) && !skipSet[sg.Name] && !isParent[sg.Name] {
					okGang = false
				}
			}
		}
		if !okGang {
			for k, v := range backup {
				c := v
				st[k] = &c
			}
			continue
		}
		for pi := 0; pi < len(wl.Pods); pi++ { // in index order: the draws below must not depend on map iteration order
			pl, ok := placed[pi]
			if !ok {
				continue
			}
			p := &wl.Pods[pi]
			p.State, p.Node, p.GPUGroups = "running", pl.node, pl.groups
			if o.Terminating && chance(t, "terminating", 15) {
				p.State = "terminating"
			}
		}
		ago := int64(rapid.IntRange(0, 10000).Draw(t, "laststart"))
		wl.LastStartAgo = &ago
	}
}

func genConfig(t *rapid.T, o GenOpts) SchedConfig {
	c := DefaultSchedConfig()
	if o.Actions != nil {
		c.Actions = o.Actions
	}
	if o.FixedConfig {
		return c
	}
	c.GPUPlacement = pick(t, "gpuplace", "binpack", "spread")
	c.CPUPlacement = pick(t, "cpuplace", "binpack", "spread")
	c.GPUSharingOrder = pick(t, "gpuorder", "gpupack", "gpuspread")
	c.UseSignatures = chance(t, "signatures", 70)
	c.ConsolidatingReclaim = chance(t, "consreclaim", 50)
	c.FullHierarchyFairness = true
	if o.Actions == nil && chance(t, "dropaction", 25) {
		drop := pick(t, "dropwhich", "consolidation", "reclaim", "preempt", "stalegangeviction")
		var as []string
		for _, a := range c.Actions {
			if a != drop {
				as = append(as, a)
			}
		}
		c.Actions = as
	}
	return c
}

func genOps(t *rapid.T, o GenOpts, w *World) []Op {
	cycles := rapid.IntRange(o.MinCycles, o.MaxCycles).Draw(t, "cycles")
	var pods []string
	for _, wl := range w.Workloads {
		for _, p := range wl.Pods {
			pods = append(pods, p.Name)
		}
	}
	var ops []Op
	for c := 0; c < cycles; c++ {
		cy := Op{Kind: "cycle"}
		if o.MidEvict && chance(t, "midevict", 25) { // a victim finishes / is deleted between the snapshot and its eviction
			cy.Arg = fmt.Sprintf("midevict:%d:%s", rapid.IntRange(1, 4).Draw(t, "midevictn"), pick(t, "midevictkind", "complete", "delete"))
		} else if o.SchedCrash && chance(t, "schedcrash", 4) { // the scheduler process dies after its k-th mutating API call of the cycle
			cy.Arg = fmt.Sprintf("crash:%d", rapid.IntRange(1, 6).Draw(t, "crashat"))
		}
		ops = append(ops, cy)
		if chance(t, "binder", 85) {
			ops = append(ops, Op{Kind: "binder"})
		}
		if chance(t, "kubelet", 70) {
			ops = append(ops, Op{Kind: "kubelet"})
		}
		if o.Completions && len(pods) > 0 && chance(t, "complete", 25) {
			ops = append(ops, Op{Kind: pick(t, "ckind", "complete", "delete"), Arg: pick(t, "cpod", pods...)})
		}
		if chance(t, "advance", 30) {
			ops = append(ops, Op{Kind: "advance", N: pick(t, "adv", 1, 10, 61, 600, 7200)})
		}
	}
	return ops
}

func genFaults(t *rapid.T, o GenOpts, w *World) ([]Fault, map[string]int) {
	var pods []string
	for _, wl := range w.Workloads {
		for _, p := range wl.Pods {
			pods = append(pods, p.Name)
		}
	}
	var fs []Fault
	bf := map[string]int{}
	if o.Faults && len(pods) > 0 {
		n := rapid.IntRange(0, 4).Draw(t, "nfaults")
		for i := 0; i < n; i++ {
			f := Fault{Actor: "scheduler", Nth: rapid.IntRange(0, 1).Draw(t, "nth")}
			switch pick(t, "fkind", "bind", "bind", "evict", "evict", "brdelete") {
			case "bind":
				f.Verb, f.Resource = "create", "bindrequests"
			case "evict":
				f.Verb, f.Resource = "delete", "pods"
			case "brdelete":
				f.Verb, f.Resource = "delete", "bindrequests"
			}
			if chance(t, "anyname", 30) {
				f.Name = ""
			} else {
				f.Name = pick(t, "fpod", pods...)
			}
			f.Kind = pick(t, "ferr", "error", "timeout", "conflict", "throttle")
			fs = append(fs, f)
		}
	}
	if o.BindFailures && len(pods) > 0 {
		n := rapid.IntRange(0, 3).Draw(t, "nbindfail")
		for i := 0; i < n; i++ {
			bf[pick(t, "bfpod", pods...)] = rapid.IntRange(1, 2).Draw(t, "bftimes")
		}
	}
	if len(bf) == 0 {
		bf = nil
	}
	return fs, bf
}

func GenScript(t *rapid.T, prop, profile string, o GenOpts) *Script {
	s := &Script{Prop: prop, Profile: profile}
	s.MapSeed = rapid.Uint64Range(1, 1<<62).Draw(t, "mapseed")
	s.Config = genConfig(t, o)
	s.World.Nodes = genNodes(t, o)
	var leaves []string
	s.World.Queues, leaves = genQueues(t, o)
	if o.Priorities {
		s.World.PriorityClasses = []PriorityClassSpec{{Name: "train", Value: 50}, {Name: "build", Value: 100}, {Name: "inference", Value: 125}, {Name: "low", Value: 25}}
	}
	if o.Priorities && prop == "C06" && chance(t, "extremeclasses", 25) {
		// legal extremes of the int32 priority range inside one world: differences of priorities do not fit an int32
		s.World.PriorityClasses = append(s.World.PriorityClasses, PriorityClassSpec{Name: "huge", Value: 1000000000}, PriorityClassSpec{Name: "deep", Value: -1500000000})
	}
	s.World.Workloads = genWorkloads(t, o, leaves, s.World.Nodes, s.World.PriorityClasses)
	if o.Running {
		placeInitial(t, o, &s.World)
	}
	if o.Twins {
		// legal extremes of the int32 priority range (user classes go up to 10^9, negative values are allowed)
		s.World.PriorityClasses = append(s.World.PriorityClasses, PriorityClassSpec{Name: "huge", Value: 1000000000}, PriorityClassSpec{Name: "deep", Value: -1500000000})
		n := len(s.World.Workloads)
		for i := 0; i < n && len(s.World.Workloads) < 14; i++ {
			w := s.World.Workloads[i]
			allPending := true
			for _, p := range w.Pods {
				if p.State != "pending" {
					allPending = false
				}
			}
			// a partially running original (some pods running, the rest pending, nothing terminating) gets a YOUNGER, fully
			// pending twin of the same priority: the older workload, if it is below a minimum, must still go first
			partial, hasRunning, hasPending := true, false, false
			for _, p := range w.Pods {
				switch p.State {
				case "running":
					hasRunning = true
				case "pending":
					hasPending = true
				default:
					partial = false
				}
			}
			partial = partial && hasRunning && hasPending
			if !(allPending || partial) || !chance(t, "twin", 60) {
				continue
			}
			tw := w
			tw.Name = fmt.Sprintf("%st", w.Name)
			tw.Pods = nil
			for j, p := range w.Pods {
				p.Name = fmt.Sprintf("%s-p%d", tw.Name, j)
				p.State, p.Node, p.GPUGroups = "pending", "", nil
				tw.Pods = append(tw.Pods, p)
			}
			tw.SubGroups = append([]SubGroupSpec(nil), w.SubGroups...)
			if partial {
				tw.LastStartAgo = nil
				tw.AgeSec = int64(rapid.IntRange(1, int(max(2, w.AgeSec))-1).Draw(t, "twinyounger"))
				s.World.Workloads = append(s.World.Workloads, tw)
				continue
			}
			if chance(t, "twinprio", 50) && len(s.World.PriorityClasses) > 0 {
				// same preemptibility class, different priority
				if w.Preemptibility == "" {
					tw.Preemptibility, s.World.Workloads[i].Preemptibility = "preemptible", "preemptible"
				}
				tw.PriorityClass = pick(t, "twinpc", "train", "build", "inference", "low", "huge", "deep")
				if chance(t, "twinextreme", 25) {
					s.World.Workloads[i].PriorityClass = pick(t, "origpc", "huge", "deep")
				}
			} else {
				tw.AgeSec = int64(rapid.IntRange(1, 5000).Draw(t, "twinage"))
			}
			s.World.Workloads = append(s.World.Workloads, tw)
		}
	}
	s.Ops = genOps(t, o, &s.World)
	s.Faults, s.BindFail = genFaults(t, o, &s.World)
	if o.DRA && chance(t, "draworld", 35) {
		decorateDRA(t, s)
		s.Profile += "+dra"
	}
	return s
}

// GenRobustnessScript: healthy world + witness + malformed objects injected between cycles.
func GenRobustnessScript(t *rapid.T, thorough bool) *Script {
	o := mixedOpts(thorough)
	o.Faults, o.BindFailures, o.MIG = false, false, false
	o.MaxWorkloads = 5
	s := GenScript(t, "C10", "malformed-objects", o)
	s.Config.FullHierarchyFairness = chance(t, "fullfair", 70)
	s.Config.CSIStorage = chance(t, "csistorage", 30)
	s.World.Nodes = append(s.World.Nodes, NodeSpec{Name: "nw", CPUm: 4000, MemMi: 8192, Pods: 20, GPUs: 1, Labels: map[string]string{"witness": "true"},
		Taints: []TaintSpec{{Key: "witness", Value: "true", Effect: "NoSchedule"}}})
	parent := ""
	if !s.Config.FullHierarchyFairness {
		// project-level fairness only keeps queues that have a parent
		s.World.Queues = append(s.World.Queues, QueueSpec{Name: "dw", GPU: QRes{-1, -1, 1}, CPU: QRes{-1, -1, 1}, Mem: QRes{-1, -1, 1}})
		parent = "dw"
	}
	s.World.Queues = append(s.World.Queues, QueueSpec{Name: "qw", Parent: parent, GPU: QRes{-1, -1, 1}, CPU: QRes{-1, -1, 1}, Mem: QRes{-1, -1, 1}})
	s.World.Workloads = append(s.World.Workloads, WorkloadSpec{Name: "ww", Queue: "qw", MinMember: 1, AgeSec: 100, Pods: []PodSpec{{
		Name: "ww-p0", CPUm: 100, MemMi: 128, State: "pending", NodeSelector: map[string]string{"witness": "true"},
		Tolerations: []TolerationSpec{{Key: "witness", Operator: "Exists"}}}}})
	var ops []Op
	if chance(t, "witnesstopology", 35) {
		// the witness has a required topology level on a well-formed Topology of its own: Topology objects of other
		// workloads (without levels, with unknown levels) must not keep it from being placed
		wi := len(s.World.Workloads) - 1
		s.World.Topologies = append(s.World.Topologies, TopologySpec{Name: "witness-topo", Levels: []string{"kaisim/witness-zone", "kubernetes.io/hostname"}})
		nw := &s.World.Nodes[len(s.World.Nodes)-1]
		nw.Labels["kaisim/witness-zone"] = "zw"
		nw.Labels["kubernetes.io/hostname"] = "nw"
		s.World.Workloads[wi].Topo = &TopoConstraint{Topology: "witness-topo", Required: pick(t, "witnesslevel", "kaisim/witness-zone", "kubernetes.io/hostname")}
		for i := rapid.IntRange(0, 2).Draw(t, "ntopoinject"); i > 0; i-- {
			ops = append(ops, Op{Kind: "inject", Arg: pick(t, "itopokind", "topology-no-levels", "pg-unknown-topology-level", "pg-unknown-topology", "topology-root-collision"), N: rapid.IntRange(0, 14).Draw(t, "ivariant")})
		}
	}
	ninj := rapid.IntRange(1, 4).Draw(t, "ninject")
	for i := 0; i < ninj; i++ {
		ops = append(ops, Op{Kind: "inject", Arg: pick(t, "ikind", InjectKinds...), N: rapid.IntRange(0, 14).Draw(t, "ivariant")})
	}
	cycles := rapid.IntRange(2, 4).Draw(t, "c10cycles")
	for c := 0; c < cycles; c++ {
		ops = append(ops, Op{Kind: "cycle"}, Op{Kind: "binder"}, Op{Kind: "kubelet"})
		if chance(t, "moreinject", 40) {
			ops = append(ops, Op{Kind: "inject", Arg: pick(t, "ikind", InjectKinds...), N: rapid.IntRange(0, 14).Draw(t, "ivariant")})
		}
		if chance(t, "adv", 40) {
			ops = append(ops, Op{Kind: "advance", N: pick(t, "advn", 1, 61, 600)})
		}
	}
	s.Ops = ops
	return s
}

// GenClosedSystemScript: fixed nodes/queues/workloads; evicted pods are recreated; binds complete.
func GenClosedSystemScript(t *rapid.T, thorough bool) *Script {
	o := mixedOpts(thorough)
	o.Faults, o.BindFailures, o.MIG, o.Completions, o.Terminating, o.MinRuntime = false, false, false, false, false, false
	o.MaxWorkloads = 7
	var s *Script
	if chance(t, "starved", 35) {
		s = genStarvedQueueWorld(t, o)
	} else if chance(t, "pooledgangs", 25) {
		s = genPooledGangWorld(t, o)
	} else {
		s = GenScript(t, "C15", "closed-system", o)
	}
	s.Config.SaturationMultiplier = pick(t, "saturation", "", "1.5", "3")
	if len(s.World.Nodes) >= 2 && chance(t, "pools", 30) {
		// node pools: every workload is tied to one pool by a node selector, so capacity that raises fair shares may be
		// unusable for the workloads that compete (running pods keep their node: the selector of a workload is that of
		// the pool its first running pod is in)
		pool := map[string]string{}
		for i := range s.World.Nodes {
			n := &s.World.Nodes[i]
			if n.Labels == nil {
				n.Labels = map[string]string{}
			}
			n.Labels["pool"] = pick(t, "nodepool", "a", "b")
			if i < 2 {
				n.Labels["pool"] = []string{"a", "b"}[i]
			}
			pool[n.Name] = n.Labels["pool"]
		}
		for i := range s.World.Workloads {
			w := &s.World.Workloads[i]
			sel, mixed := "", false
			for _, p := range w.Pods {
				if p.Node != "" {
					if sel != "" && pool[p.Node] != sel {
						mixed = true
					}
					sel = pool[p.Node]
				}
			}
			if mixed {
				continue
			}
			if sel == "" {
				sel = pick(t, "wlpool", "a", "b", "")
			}
			if sel == "" {
				continue
			}
			for j := range w.Pods {
				if w.Pods[j].NodeSelector == nil {
					w.Pods[j].NodeSelector = map[string]string{}
				}
				w.Pods[j].NodeSelector["pool"] = sel
			}
		}
	}
	rounds := 14
	if thorough {
		rounds = 30
	}
	s.Ops = nil
	for i := 0; i < rounds; i++ {
		s.Ops = append(s.Ops, Op{Kind: "cycle"}, Op{Kind: "binder"}, Op{Kind: "kubelet"}, Op{Kind: "advance", N: 1}, Op{Kind: "recreate"})
	}
	return s
}

func GenStmtFuzzScript(t *rapid.T, thorough bool) *Script {
	o := mixedOpts(thorough)
	o.Faults, o.BindFailures, o.MIG = false, false, false
	o.MaxCycles = 3
	o.DRA = true
	s := GenScript(t, "C13", "stmt-fuzz", o)
	pos := rapid.IntRange(0, len(s.Config.Actions)).Draw(t, "fuzzpos")
	var as []string
	as = append(as, s.Config.Actions[:pos]...)
	as = append(as, "verif-stmtfuzz")
	as = append(as, s.Config.Actions[pos:]...)
	s.Config.Actions = as
	n := rapid.IntRange(3, 24).Draw(t, "proglen")
	for i := 0; i < n; i++ {
		k := pick(t, "opkind", "evict", "evict", "allocjob", "allocjob", "allocjob", "unevict", "reevict", "checkpoint", "checkpoint", "rollback", "rollback", "convert", "end")
		s.StmtProgram = append(s.StmtProgram, StmtOp{Kind: k, A: rapid.IntRange(0, 30).Draw(t, "opa"), B: rapid.IntRange(0, 5).Draw(t, "opb")})
	}
	return s
}

// GenHandoffScript: scheduler and real binder as separate actors; bind failures, node deletion,
// back-off limits; ends with fault-free rounds.
func GenHandoffScript(t *rapid.T, thorough bool) *Script {
	o := mixedOpts(thorough)
	o.Faults, o.BindFailures, o.MIG, o.Completions = false, false, false, false
	o.DRA = true
	s := GenScript(t, "C12", "handoff", o)
	var pods []string
	for _, w := range s.World.Workloads {
		for _, p := range w.Pods {
			if p.State == "pending" {
				pods = append(pods, p.Name)
			}
		}
	}
	s.BindFail = map[string]int{}
	if len(pods) > 0 {
		n := rapid.IntRange(0, 3).Draw(t, "nbindfail")
		for i := 0; i < n; i++ {
			s.BindFail[pick(t, "bfpod", pods...)] = pick(t, "bftimes", 1, 1, 2, 3, 5, 99)
		}
	}
	var ops []Op
	rounds := rapid.IntRange(2, 5).Draw(t, "rounds")
	for i := 0; i < rounds; i++ {
		ops = append(ops, Op{Kind: "cycle"})
		if chance(t, "setbackoff", 35) {
			ops = append(ops, Op{Kind: "set_backoff", N: rapid.IntRange(1, 4).Draw(t, "limit")})
		}
		if chance(t, "rbinder", 85) {
			rb := Op{Kind: "rbinder", N: rapid.IntRange(0, 3).Draw(t, "retries")}
			if chance(t, "midcycle", 45) { // a scheduler cycle while a bind is in flight (between two of its API calls)
				rb.Arg = fmt.Sprintf("mid:%d", rapid.IntRange(2, 24).Draw(t, "midat"))
			}
			ops = append(ops, rb)
		}
		if chance(t, "kubelet", 70) {
			ops = append(ops, Op{Kind: "kubelet"})
		}
		if len(s.World.Nodes) > 1 && chance(t, "delnode", 10) {
			ops = append(ops, Op{Kind: "delete_node", Arg: s.World.Nodes[rapid.IntRange(0, len(s.World.Nodes)-1).Draw(t, "whichnode")].Name})
		}
		if chance(t, "advance", 30) {
			ops = append(ops, Op{Kind: "advance", N: pick(t, "adv", 1, 10, 61)})
		}
	}
	// faults stop: transient bind failures (at most 5) are used up, one attempt per request and cycle, then clean rounds
	for i := 0; i < 8; i++ {
		ops = append(ops, Op{Kind: "cycle"}, Op{Kind: "rbinder", N: 6}, Op{Kind: "kubelet"})
	}
	s.Ops = ops
	return s
}

func GenC17Script(t *rapid.T, thorough bool) *Script {
	s := &Script{Prop: "C17", Profile: "binder-only", C17: &C17Script{}}
	c := s.C17
	c.MapSeed = rapid.Uint64Range(1, 1<<62).Draw(t, "mapseed")
	s.MapSeed = c.MapSeed
	groupNode := map[string]string{"ga": "n0", "gb": "n0", "gc": "n1", "gd": "n1"}
	groupsOn := map[string][]string{"n0": {"ga", "gb"}, "n1": {"gc", "gd"}}
	mkTarget := func(name string) C17Target {
		node := pick(t, "tnode", "n0", "n1")
		tg := C17Target{Pod: name, Node: node, Fraction: pick(t, "tfrac", "0.25", "0.3", "0.5")}
		if chance(t, "tmulti", 30) {
			tg.Multi = true
			tg.Groups = append([]string(nil), groupsOn[node]...)
		} else {
			tg.Groups = []string{pick(t, "tgroup", groupsOn[node]...)}
		}
		return tg
	}
	_ = groupNode
	ns := rapid.IntRange(0, 2).Draw(t, "nsharers")
	for i := 0; i < ns; i++ {
		sh := mkTarget(fmt.Sprintf("s%d", i))
		sh.Fraction = "0.1"
		c.Sharers = append(c.Sharers, sh)
	}
	nt := rapid.IntRange(1, 4).Draw(t, "ntargets")
	var pods []string
	for i := 0; i < nt; i++ {
		tg := mkTarget(fmt.Sprintf("t%d", i))
		c.Targets = append(c.Targets, tg)
		pods = append(pods, tg.Pod)
	}
	var all []string
	all = append(all, pods...)
	for _, sh := range c.Sharers {
		all = append(all, sh.Pod)
	}
	nsteps := rapid.IntRange(2, 8).Draw(t, "nsteps")
	for i := 0; i < nsteps; i++ {
		st := C17Step{}
		switch pick(t, "stepkind", "reconcile", "reconcile", "reconcile", "complete", "delete", "delete_br", "restart", "agent", "terminate") {
		case "reconcile":
			st.Kind = "reconcile"
			k := rapid.IntRange(1, min(3, len(pods))).Draw(t, "nconc")
			seen := map[string]bool{}
			for j := 0; j < k; j++ {
				p := pick(t, "rpod", pods...)
				if !seen[p] {
					seen[p] = true
					st.Pods = append(st.Pods, p)
				}
			}
			if chance(t, "crash", 25) {
				st.Crash = map[string]int{st.Pods[0]: rapid.IntRange(1, 25).Draw(t, "crashk")}
			} else if chance(t, "failk", 25) {
				st.Fail = map[string]int{st.Pods[0]: rapid.IntRange(1, 25).Draw(t, "failk")}
			}
			nt := rapid.IntRange(0, 40).Draw(t, "tapelen")
			for j := 0; j < nt; j++ {
				st.Tape = append(st.Tape, rapid.IntRange(0, 3).Draw(t, "tape"))
			}
		case "terminate":
			st.Kind, st.Arg = "terminate", pick(t, "tpod", all...)
		case "complete":
			st.Kind, st.Arg = "complete", pick(t, "cpod", all...)
		case "delete":
			st.Kind, st.Arg = "delete", pick(t, "dpod", all...)
		case "delete_br":
			st.Kind, st.Arg = "delete_br", pick(t, "dbr", pods...)
		case "restart":
			st.Kind = "restart"
		case "agent":
			st.Kind, st.Arg = "agent", pick(t, "agentmode", "fast", "late", "silent")
		}
		c.Steps = append(c.Steps, st)
	}
	return s
}

func GenC20Script(t *rapid.T, thorough bool) *Script {
	o := mixedOpts(thorough)
	o.MIG, o.Terminating, o.TightPods = false, false, false
	o.Hierarchy = 3
	s := &Script{Prop: "C20", Profile: "status-controllers", C20: &C20Script{}}
	s.MapSeed = rapid.Uint64Range(1, 1<<62).Draw(t, "mapseed")
	c := s.C20
	c.World.Nodes = genNodes(t, o)
	for i := range c.World.Nodes {
		if c.World.Nodes[i].GPUs > 0 && c.World.Nodes[i].GPUMemMi == 0 {
			c.World.Nodes[i].GPUMemMi = 16000
		}
	}
	var leaves []string
	c.World.Queues, leaves = genQueues(t, o)
	c.World.PriorityClasses = []PriorityClassSpec{{Name: "train", Value: 50}, {Name: "build", Value: 100}, {Name: "inference", Value: 125}, {Name: "low", Value: 25}}
	c.World.Workloads = genWorkloads(t, o, leaves, c.World.Nodes, c.World.PriorityClasses)
	if chance(t, "globaldefault", 30) { // a cluster-wide default priority class: what a pod group without (known) class gets
		c.World.PriorityClasses = append(c.World.PriorityClasses, PriorityClassSpec{Name: "cluster-default", Value: int32(pick(t, "gdvalue", 40, 100, 150)), GlobalDefault: true})
	}
	for wi := range c.World.Workloads {
		for pi := range c.World.Workloads[wi].Pods {
			p := &c.World.Workloads[wi].Pods[pi]
			if p.GPUMemMi > 0 { // keep to fractions: memory requests depend on per-node rounding rules
				p.GPUMemMi, p.Fraction = 0, "0.5"
			}
		}
	}
	for wi := range c.World.Workloads {
		// workloads whose pods request sub-unit quantities only (GPU fraction, milli-CPU, no memory): the sums change
		// with a pod's phase without crossing a whole unit
		if chance(t, "subunitonly", 30) {
			for pi := range c.World.Workloads[wi].Pods {
				p := &c.World.Workloads[wi].Pods[pi]
				p.MemMi, p.GPUs, p.GPUMemMi, p.NumDevices = 0, 0, 0, 0
				p.CPUm = int64(pick(t, "subcpu", 100, 200, 300))
				p.Fraction = pick(t, "subfrac", "", "0.2", "0.3", "0.25")
			}
		}
	}
	placeInitial(t, o, &c.World)
	var pods, pgs, qs []string
	for _, w := range c.World.Workloads {
		pgs = append(pgs, w.Name)
		for _, p := range w.Pods {
			pods = append(pods, p.Name)
		}
	}
	for _, q := range c.World.Queues {
		qs = append(qs, q.Name)
	}
	n := rapid.IntRange(2, 14).Draw(t, "nsteps")
	for i := 0; i < n; i++ {
		st := C20Step{}
		switch pick(t, "c20kind", "pod_phase", "pod_phase", "pod_scheduled", "pod_delete", "pg_preemptibility", "pg_preemptibility", "pg_priority", "pg_queue", "queue_parent", "drain", "drain", "fail", "restart") {
		case "pod_phase":
			st = C20Step{Kind: "pod_phase", Arg: pick(t, "pod", pods...), Val: pick(t, "phase", "Pending", "Running", "Succeeded", "Failed")}
		case "pod_scheduled":
			st = C20Step{Kind: "pod_scheduled", Arg: pick(t, "pod", pods...), Val: pick(t, "cond", "True", "False")}
		case "pod_delete":
			st = C20Step{Kind: "pod_delete", Arg: pick(t, "pod", pods...)}
		case "pg_preemptibility":
			st = C20Step{Kind: "pg_preemptibility", Arg: pick(t, "pg", pgs...), Val: pick(t, "pre", "preemptible", "non-preemptible", "")}
		case "pg_priority":
			st = C20Step{Kind: "pg_priority", Arg: pick(t, "pg", pgs...), Val: pick(t, "pc", "train", "build", "inference", "low", "missing", "")}
		case "pg_queue":
			st = C20Step{Kind: "pg_queue", Arg: pick(t, "pg", pgs...), Val: pick(t, "q", leaves...)}
		case "queue_parent":
			st = C20Step{Kind: "queue_parent", Arg: pick(t, "q", qs...), Val: pick(t, "parent", append([]string{""}, qs...)...)}
		case "drain":
			st = C20Step{Kind: "drain", N: rapid.IntRange(1, 12).Draw(t, "drainn")}
			for j := 0; j < st.N; j++ {
				st.Tape = append(st.Tape, rapid.IntRange(0, 7).Draw(t, "dtape"))
			}
		case "fail":
			st = C20Step{Kind: "fail", N: rapid.IntRange(1, 4).Draw(t, "failn")}
		case "restart":
			st = C20Step{Kind: "restart"}
		}
		c.Steps = append(c.Steps, st)
	}
	nt := rapid.IntRange(0, 40).Draw(t, "tapelen")
	for j := 0; j < nt; j++ {
		c.Tape = append(c.Tape, rapid.IntRange(0, 7).Draw(t, "tape"))
	}
	return s
}


// genStarvedQueueWorld (C15): one node of whole GPUs; a greedy queue running single-GPU workloads above its quota and
// a starved queue below its quota whose pending workloads differ in size (a large head that can never reclaim enough,
// smaller ones behind it that can). Whole-GPU pods only, so that the only question is who is entitled to what.
func genStarvedQueueWorld(t *rapid.T, o GenOpts) *Script {
	s := &Script{Prop: "C15", Profile: "closed-starved-queue"}
	s.MapSeed = rapid.Uint64Range(1, 1<<62).Draw(t, "mapseed")
	s.Config = genConfig(t, o)
	s.Config.Actions = []string{"allocate", "consolidation", "reclaim", "preempt", "stalegangeviction"}
	g := pick(t, "sgpus", 3, 4, 6, 8)
	s.World.Nodes = []NodeSpec{{Name: "n0", CPUm: 64000, MemMi: 262144, Pods: 110, GPUs: int64(g)}}
	unl := QRes{Quota: -1, Limit: -1, Weight: 1}
	ng := rapid.IntRange(1, g).Draw(t, "sgreedy")
	ns := rapid.IntRange(0, g-ng).Draw(t, "sstarvedrunning")
	qa := max(0, ng-rapid.IntRange(0, 2).Draw(t, "squotaA")) // the greedy queue is at or a little above its quota
	qb := min(g, ns+rapid.IntRange(0, 2).Draw(t, "squotaB")) // the starved queue is at or a little below its quota
	if chance(t, "sflagoff", 60) {
		s.Config.ConsolidatingReclaim = false
	}
	s.World.Queues = []QueueSpec{
		{Name: "greedy", GPU: QRes{Quota: float64(qa), Limit: -1, Weight: pick(t, "swa", 0.0, 1.0, 2.0)}, CPU: unl, Mem: unl},
		{Name: "starved", GPU: QRes{Quota: float64(qb), Limit: -1, Weight: pick(t, "swb", 0.0, 1.0, 2.0)}, CPU: unl, Mem: unl},
	}
	s.World.PriorityClasses = []PriorityClassSpec{{Name: "train", Value: 50}, {Name: "build", Value: 100}, {Name: "inference", Value: 125}, {Name: "low", Value: 25}}
	used := 0
	add := func(name, queue string, gpus int, running bool, age int) {
		w := WorkloadSpec{Name: name, Queue: queue, MinMember: 1, PriorityClass: "train", AgeSec: int64(age)}
		p := PodSpec{Name: name + "-p0", CPUm: 100, MemMi: 128, GPUs: int64(gpus), State: "pending"}
		if running {
			p.State, p.Node = "running", "n0"
			ago := int64(rapid.IntRange(100, 10000).Draw(t, "sls"))
			w.LastStartAgo = &ago
		}
		w.Pods = []PodSpec{p}
		s.World.Workloads = append(s.World.Workloads, w)
	}
	for i := 0; i < ng && used < g; i++ {
		add(fmt.Sprintf("g%d", i), "greedy", 1, true, 1000+i)
		used++
	}
	for i := 0; i < ns; i++ {
		add(fmt.Sprintf("s%d", i), "starved", 1, true, 2000+i)
		used++
	}
	np := rapid.IntRange(1, 3).Draw(t, "spending")
	for i := 0; i < np; i++ {
		size := 1
		if i == 0 && chance(t, "sbighead", 60) {
			size = rapid.IntRange(2, g).Draw(t, "spgpus") // a large head of the queue
		}
		add(fmt.Sprintf("sp%d", i), "starved", size, false, 3000-100*i) // older = earlier in the queue
	}
	if chance(t, "sgpending", 40) {
		add("gp0", "greedy", rapid.IntRange(1, 2).Draw(t, "gpgpus"), false, 500)
	}
	return s
}

// genPooledGangWorld: closed system of gangs tied to a small node pool by a node selector, next to a second pool whose
// idle GPUs raise every queue's fair share without being usable: two or three queues of equal age, one gang each
// (1-GPU pods), some running, the others pending. A reclaim that is justified for one pod of a gang but not for the
// whole gang must not happen: if it does, the victim can do the same back.
func genPooledGangWorld(t *rapid.T, o GenOpts) *Script {
	s := &Script{Prop: "C15", Profile: "closed-pooled-gangs"}
	s.MapSeed = rapid.Uint64Range(1, 1<<62).Draw(t, "mapseed")
	s.Config = genConfig(t, o)
	s.Config.Actions = []string{"allocate", "consolidation", "reclaim", "preempt", "stalegangeviction"}
	g := pick(t, "pgpus", 2, 3, 4)
	spare := pick(t, "pspare", 0, 2, 4, 8)
	s.World.Nodes = []NodeSpec{{Name: "n0", CPUm: 64000, MemMi: 262144, Pods: 110, GPUs: int64(g), Labels: map[string]string{"pool": "a"}}}
	if spare > 0 {
		s.World.Nodes = append(s.World.Nodes, NodeSpec{Name: "n1", CPUm: 64000, MemMi: 262144, Pods: 110, GPUs: int64(spare), Labels: map[string]string{"pool": "b"}})
	}
	unl := QRes{Quota: -1, Limit: -1, Weight: 1}
	s.World.PriorityClasses = []PriorityClassSpec{{Name: "train", Value: 50}, {Name: "build", Value: 100}, {Name: "inference", Value: 125}, {Name: "low", Value: 25}}
	nq := rapid.IntRange(2, 3).Draw(t, "pqueues")
	free := g
	for i := 0; i < nq; i++ {
		s.World.Queues = append(s.World.Queues, QueueSpec{Name: fmt.Sprintf("q%d", i), GPU: QRes{Quota: float64(rapid.IntRange(0, g).Draw(t, "pquota")), Limit: -1, Weight: pick(t, "pw", 1.0, 1.0, 2.0)}, CPU: unl, Mem: unl})
		k := rapid.IntRange(1, g).Draw(t, "pgang")
		w := WorkloadSpec{Name: fmt.Sprintf("w%d", i), Queue: fmt.Sprintf("q%d", i), MinMember: int32(k), PriorityClass: "train", AgeSec: int64(pick(t, "page", 1000, 1000, 2000))}
		running := k <= free && chance(t, "prunning", 60)
		if running {
			free -= k
			ago := int64(rapid.IntRange(100, 10000).Draw(t, "pls"))
			w.LastStartAgo = &ago
		}
		for j := 0; j < k; j++ {
			p := PodSpec{Name: fmt.Sprintf("w%d-p%d", i, j), CPUm: 100, MemMi: 128, GPUs: 1, State: "pending", NodeSelector: map[string]string{"pool": "a"}}
			if running {
				p.State, p.Node = "running", "n0"
			}
			w.Pods = append(w.Pods, p)
		}
		s.World.Workloads = append(s.World.Workloads, w)
	}
	return s
}

// GenC20OpScript (C20, operator clause): a Config built from fragments, up to two scheduling shards, an environment
// (prometheus CRDs, NVIDIA cluster policy, fake GPU node, queue CRD) and a history of reconciles with API faults,
// lost responses and crashes, configuration edits, shard edits/deletes, operand objects deleted behind the operator's back.
func GenC20OpScript(t *rapid.T, thorough bool) *Script {
	s := &Script{Prop: "C20", Profile: "operator", C20Op: &C20OpScript{}}
	s.MapSeed = rapid.Uint64Range(1, 1<<62).Draw(t, "mapseed")
	c := s.C20Op
	cfgFrags := sortedKeys(opConfigFrags)
	shFrags := sortedKeys(opShardFrags)
	for i, n := 0, rapid.IntRange(0, 5).Draw(t, "nfrags"); i < n; i++ {
		f := pick(t, "frag", cfgFrags...)
		c.Frags = toggle(c.Frags, f)
	}
	shardNames := []string{"default", "pool-b"}
	for i, n := 0, rapid.IntRange(0, 2).Draw(t, "nshards"); i < n; i++ {
		sh := C20OpShard{Name: shardNames[i]}
		for j, m := 0, rapid.IntRange(0, 3).Draw(t, "nshfrags"); j < m; j++ {
			sh.Frags = toggle(sh.Frags, pick(t, "shfrag", shFrags...))
		}
		c.Shards = append(c.Shards, sh)
	}
	c.Env = C20OpEnv{PromCRDs: chance(t, "promcrds", 50), ClusterPolicy: pick(t, "cp", "", "", "cdi", "cdi-default", "nocdi"),
		FakeGPUNode: chance(t, "fakegpu", 25), QueueCRD: pick(t, "qcrd", "", "plain", "conversion"), PreSecrets: chance(t, "presecrets", 65)}
	targets := []string{"config", "config", "default", "pool-b"}
	maxSteps := 10
	if thorough {
		maxSteps = 18
	}
	for i, n := 0, rapid.IntRange(1, maxSteps).Draw(t, "nsteps"); i < n; i++ {
		var st C20OpStep
		switch pick(t, "opkind", "reconcile", "reconcile", "reconcile", "reconcile", "edit_config", "edit_config", "shard_put", "shard_delete", "foreign_delete", "deploy_status", "env", "restart", "sleep") {
		case "sleep":
			st = C20OpStep{Kind: "sleep", N: pick(t, "days", 1, 8, 22, 31, 400)}
		case "reconcile":
			st = C20OpStep{Kind: "reconcile", Arg: pick(t, "target", targets...)}
			if chance(t, "faulty", 55) {
				st.N = rapid.IntRange(1, 90).Draw(t, "failat")
				st.Fault = pick(t, "fault", "err", "lost", "crash", "crash")
			}
		case "edit_config":
			st = C20OpStep{Kind: "edit_config", Arg: pick(t, "frag", cfgFrags...)}
		case "shard_put":
			st = C20OpStep{Kind: "shard_put", Arg: pick(t, "shard", shardNames...), Val: pick(t, "shfrag", append([]string{""}, shFrags...)...)}
		case "shard_delete":
			st = C20OpStep{Kind: "shard_delete", Arg: pick(t, "shard", shardNames...)}
		case "foreign_delete":
			st = C20OpStep{Kind: "foreign_delete", N: rapid.IntRange(0, 60).Draw(t, "victim")}
		case "deploy_status":
			st = C20OpStep{Kind: "deploy_status", N: rapid.IntRange(0, 10).Draw(t, "deploy"), Val: pick(t, "avail", "available", "unavailable")}
		case "env":
			st = C20OpStep{Kind: "env", Arg: pick(t, "envkind", "prom_crds", "fake_gpu_node", "cluster_policy"), Val: pick(t, "cp", "", "cdi", "cdi-default", "nocdi")}
		case "restart":
			st = C20OpStep{Kind: "restart"}
		}
		c.Steps = append(c.Steps, st)
	}
	return s
}
