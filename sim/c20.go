package kaisim

// C20: status controllers (pod-group controller, queue controller) converge to the true aggregate
// and are idempotent. The simulator is the controllers' work queue: it turns object changes into
// reconcile requests with controller-runtime's mapping rules and decides their order.

import (
	"context"
	"runtime/debug"
	"encoding/json"
	"fmt"
	"sort"
	"strings"
	"testing"
	"testing/synctest"

	corev1 "k8s.io/api/core/v1"
	"k8s.io/apimachinery/pkg/api/resource"
	"k8s.io/apimachinery/pkg/types"
	ctrl "sigs.k8s.io/controller-runtime"
	"sigs.k8s.io/controller-runtime/pkg/client"
	crfake "sigs.k8s.io/controller-runtime/pkg/client/fake"
	"sigs.k8s.io/controller-runtime/pkg/client/interceptor"

	schedv2 "github.com/NVIDIA/KAI-scheduler/pkg/apis/scheduling/v2"
	schedv2alpha2 "github.com/NVIDIA/KAI-scheduler/pkg/apis/scheduling/v2alpha2"
	pgcontrollers "github.com/NVIDIA/KAI-scheduler/pkg/podgroupcontroller/controllers"
	"github.com/NVIDIA/KAI-scheduler/pkg/podgroupcontroller/controllers/cluster_relations"
	qcontrollers "github.com/NVIDIA/KAI-scheduler/pkg/queuecontroller/controllers"
	qmetrics "github.com/NVIDIA/KAI-scheduler/pkg/queuecontroller/metrics"
)

type C20Step struct {
	Kind string `json:"kind"` // pod_phase | pod_scheduled | pod_delete | pg_preemptibility | pg_priority | pg_queue | queue_parent | drain | fail | restart
	Arg  string `json:"arg,omitempty"`
	Val  string `json:"val,omitempty"`
	N    int    `json:"n,omitempty"`
	Tape []int  `json:"tape,omitempty"`
}

type C20Script struct {
	World World     `json:"world"`
	Steps []C20Step `json:"steps"`
	Tape  []int     `json:"tape"`
}

type c20Sim struct {
	api     *SimAPI
	client  client.Client
	pgRec   *pgcontrollers.PodGroupReconciler
	qRec    *qcontrollers.QueueReconciler
	queue   map[string]bool // "pg/<ns>/<name>" | "q/<name>"
	snap    map[string]string
	snapObj map[string]any
	writes  int
	failAt  int // fail the k-th mutating call from now (0 = none)
	res     *Result
}

func (s *c20Sim) key(kind, ns, name string) string { return kind + "/" + ns + "/" + name }

func (s *c20Sim) observe() {
	// turn object changes since the last observation into reconcile requests (c-r mapping rules:
	// For(obj) => the object itself; Watches(map) => map(old) and map(new))
	cur := map[string]string{}
	curObj := map[string]any{}
	for _, p := range s.api.Pods() {
		p = p.DeepCopy()
		p.ResourceVersion = ""
		b, _ := json.Marshal(p)
		cur[s.key("pod", p.Namespace, p.Name)] = string(b)
		curObj[s.key("pod", p.Namespace, p.Name)] = p
	}
	for _, g := range s.api.PodGroups() {
		g = g.DeepCopy()
		g.ResourceVersion = "" // a real API server does not bump the version on a no-op write
		b, _ := json.Marshal(g)
		cur[s.key("pg", g.Namespace, g.Name)] = string(b)
		curObj[s.key("pg", g.Namespace, g.Name)] = g
	}
	for _, q := range s.api.Queues() {
		q = q.DeepCopy()
		q.ResourceVersion = ""
		b, _ := json.Marshal(q)
		cur[s.key("q", "", q.Name)] = string(b)
		curObj[s.key("q", "", q.Name)] = q
	}
	mapObj := func(o any) {
		switch x := o.(type) {
		case *corev1.Pod:
			if g := x.Annotations[PGAnnotation]; g != "" {
				s.queue[s.key("pg", x.Namespace, g)] = true
			}
		case *schedv2alpha2.PodGroup:
			s.queue[s.key("pg", x.Namespace, x.Name)] = true
			if x.Spec.Queue != "" {
				s.queue[s.key("q", "", x.Spec.Queue)] = true
			}
		case *schedv2.Queue:
			s.queue[s.key("q", "", x.Name)] = true
			if x.Spec.ParentQueue != "" {
				s.queue[s.key("q", "", x.Spec.ParentQueue)] = true
			}
		}
	}
	for k, v := range cur {
		if old, ok := s.snap[k]; !ok || old != v {
			if ok {
				mapObj(s.snapObj[k])
			}
			mapObj(curObj[k])
		}
	}
	for k := range s.snap {
		if _, ok := cur[k]; !ok {
			mapObj(s.snapObj[k])
		}
	}
	s.snap, s.snapObj = cur, curObj
}

func (s *c20Sim) reconcileOne(tape *[]int) bool {
	if len(s.queue) == 0 {
		return false
	}
	keys := sortedKeys(s.queue)
	i := 0
	if len(*tape) > 0 {
		i = (*tape)[0] % len(keys)
		*tape = (*tape)[1:]
	}
	k := keys[i]
	delete(s.queue, k)
	parts := strings.SplitN(k, "/", 3)
	var err error
	if parts[0] == "pg" {
		_, err = s.pgRec.Reconcile(context.Background(), ctrl.Request{NamespacedName: types.NamespacedName{Namespace: parts[1], Name: parts[2]}})
	} else {
		_, err = s.qRec.Reconcile(context.Background(), ctrl.Request{NamespacedName: types.NamespacedName{Name: parts[2]}})
	}
	s.res.Probes["c20_reconciles"]++
	if err != nil {
		s.res.Probes["c20_reconcile_errors"]++
		s.queue[k] = true // error => requeue
	}
	s.observe()
	return true
}

func qtyMilli(l corev1.ResourceList, name string) int64 {
	q, ok := l[corev1.ResourceName(name)]
	if !ok {
		return 0
	}
	return q.MilliValue()
}

type c20Agg struct{ req, alloc, np map[string]int64 }

func newAgg() *c20Agg {
	return &c20Agg{req: map[string]int64{}, alloc: map[string]int64{}, np: map[string]int64{}}
}
func (a *c20Agg) add(b *c20Agg) {
	for k, v := range b.req {
		a.req[k] += v
	}
	for k, v := range b.alloc {
		a.alloc[k] += v
	}
	for k, v := range b.np {
		a.np[k] += v
	}
}

var c20Resources = []string{"cpu", "memory", GPUResource}

func cmpList(got corev1.ResourceList, want map[string]int64) string {
	for _, r := range c20Resources {
		if qtyMilli(got, r) != want[r] {
			return fmt.Sprintf("%s: reported %d (milli), expected %d", r, qtyMilli(got, r), want[r])
		}
	}
	return ""
}

func runC20(t *testing.T, sc *C20Script) (res *Result) {
	res = &Result{Probes: map[string]int{}, Faults: map[string]int{}}
	func() {
		defer func() {
			if p := recover(); p != nil {
				if msg := fmt.Sprint(p); !strings.Contains(msg, "deadlock: main bubble goroutine has exited") {
					res.Panic = msg
				}
			}
		}()
		synctest.Test(t, func(t *testing.T) {
			defer func() {
				if p := recover(); p != nil {
					res.Panic = fmt.Sprintf("%v\n%s", p, debug.Stack())
				}
			}()
			c20Body(sc, res)
		})
	}()
	return
}

func c20Body(sc *C20Script, res *Result) {
	fail := func(rule, format string, args ...any) {
		if len(res.Violations) < 20 {
			res.Violations = append(res.Violations, Violation{Prop: "C20", Rule: rule, Detail: fmt.Sprintf(format, args...)})
		}
	}
	api := NewSimAPI(sc.World.Objects())
	// the succeeded BindRequests the world builder adds are irrelevant here
	s := &c20Sim{api: api, queue: map[string]bool{}, snap: map[string]string{}, snapObj: map[string]any{}, res: res}
	funcs := interceptor.Funcs{
		SubResourcePatch: func(ctx context.Context, c client.Client, sub string, obj client.Object, patch client.Patch, opts ...client.SubResourcePatchOption) error {
			s.writes++
			res.Probes["c20_status_writes"]++
			if s.failAt > 0 {
				s.failAt--
				if s.failAt == 0 {
					res.Faults["error patch/status"]++
					return fmt.Errorf("simulated api failure")
				}
			}
			return c.SubResource(sub).Patch(ctx, obj, patch, opts...)
		},
	}
	s.client = crfake.NewClientBuilder().WithScheme(Scheme()).WithObjectTracker(api.Tracker).
		WithStatusSubresource(&schedv2alpha2.PodGroup{}, &schedv2.Queue{}).
		WithIndex(&corev1.Pod{}, cluster_relations.PodGroupToPodsIndexer, cluster_relations.PodGroupNameIndexerFunc).
		WithIndex(&schedv2.Queue{}, ".spec.parentQueue", func(o client.Object) []string {
			if p := o.(*schedv2.Queue).Spec.ParentQueue; p != "" {
				return []string{p}
			}
			return nil
		}).
		WithIndex(&schedv2alpha2.PodGroup{}, ".spec.queue", func(o client.Object) []string {
			if q := o.(*schedv2alpha2.PodGroup).Spec.Queue; q != "" {
				return []string{q}
			}
			return nil
		}).
		WithInterceptorFuncs(funcs).Build()
	s.pgRec = &pgcontrollers.PodGroupReconciler{Client: s.client, Scheme: Scheme()}
	qmetrics.InitMetrics("kai", map[string]string{}, map[string]string{}) // as cmd/queuecontroller does
	s.qRec = qcontrollers.NewQueueReconcilerForSim(s.client, Scheme())
	s.observe() // initial list: everything is new => everything is enqueued
	tape := append([]int(nil), sc.Tape...)
	for _, st := range sc.Steps {
		switch st.Kind {
		case "pod_phase":
			if p := api.Pod(NS, st.Arg); p != nil {
				if p.Spec.NodeName == "" && (st.Val == "Running" || st.Val == "Succeeded") {
					continue // only a placed pod can run
				}
				p = p.DeepCopy()
				p.Status.Phase = corev1.PodPhase(st.Val)
				api.UpdatePod(p)
			}
		case "pod_scheduled":
			if p := api.Pod(NS, st.Arg); p != nil {
				if p.Spec.NodeName == "" && st.Val == "True" {
					continue
				}
				p = p.DeepCopy()
				p.Status.Conditions = []corev1.PodCondition{{Type: corev1.PodScheduled, Status: corev1.ConditionStatus(st.Val)}}
				api.UpdatePod(p)
			}
		case "pod_delete":
			api.RemovePod(NS, st.Arg)
		case "pg_preemptibility", "pg_priority", "pg_queue":
			for _, g := range api.PodGroups() {
				if g.Name != st.Arg {
					continue
				}
				g = g.DeepCopy()
				switch st.Kind {
				case "pg_preemptibility":
					g.Spec.Preemptibility = schedv2alpha2.Preemptibility(st.Val)
				case "pg_priority":
					g.Spec.PriorityClassName = st.Val
				case "pg_queue":
					g.Spec.Queue = st.Val
				}
				must(api.Tracker.Update(PGGVR, g, g.Namespace))
			}
		case "queue_parent":
			for _, q := range api.Queues() {
				if q.Name == st.Arg && st.Val != q.Name {
					// keep the tree a tree: never re-parent under an own descendant
					bad := false
					for cur := st.Val; cur != ""; {
						if cur == q.Name {
							bad = true
							break
						}
						next := ""
						for _, qq := range api.Queues() {
							if qq.Name == cur {
								next = qq.Spec.ParentQueue
							}
						}
						cur = next
					}
					if bad {
						continue
					}
					q = q.DeepCopy()
					q.Spec.ParentQueue = st.Val
					must(api.Tracker.Update(QueueGVR, q, ""))
				}
			}
		case "drain":
			t2 := append([]int(nil), st.Tape...)
			for i := 0; i < st.N; i++ {
				if !s.reconcileOne(&t2) {
					break
				}
			}
		case "fail":
			s.failAt = st.N
		case "restart":
			// a restarted controller lists everything again
			s.snap, s.snapObj = map[string]string{}, map[string]any{}
			s.queue = map[string]bool{}
			res.Probes["c20_restarts"]++
		}
		s.observe()
	}
	// faults stop; quiescence
	s.failAt = 0
	for i := 0; i < 3000 && s.reconcileOne(&tape); i++ {
	}
	if len(s.queue) > 0 {
		fail("no_quiescence", "the controllers keep producing work after 3000 reconciles without external change: %v", sortedKeys(s.queue))
		return
	}
	// expected values from the API objects
	pcs := map[string]int32{}
	defaultPrio := int32(50) // documented fallback: the class named, else the cluster's global default class, else 50
	for _, pc := range api.PriorityClasses() {
		pcs[pc.Name] = pc.Value
		if pc.GlobalDefault {
			defaultPrio = pc.Value
		}
	}
	pgAgg := map[string]*c20Agg{}
	for _, g := range api.PodGroups() {
		prio := defaultPrio
		if v, ok := pcs[g.Spec.PriorityClassName]; ok {
			prio = v
		}
		preemptible := prio < 100
		switch string(g.Spec.Preemptibility) {
		case "preemptible":
			preemptible = true
		case "non-preemptible":
			preemptible = false
		}
		a := newAgg()
		for _, p := range api.Pods() {
			if p.Annotations[PGAnnotation] != g.Name || p.Namespace != g.Namespace {
				continue
			}
			d := PodDemand(p)
			one := map[string]int64{"cpu": d.CPUm, "memory": d.MemB * 1000, GPUResource: d.GPUs * 1000}
			if d.Shared && d.Fraction > 0 {
				q := resource.MustParse(p.Annotations["gpu-fraction"])
				one[GPUResource] += q.MilliValue() * d.Devices
			}
			active := p.Status.Phase == corev1.PodPending || p.Status.Phase == corev1.PodRunning
			scheduled := false
			for _, c := range p.Status.Conditions {
				if c.Type == corev1.PodScheduled && c.Status == corev1.ConditionTrue {
					scheduled = true
				}
			}
			allocated := p.Status.Phase == corev1.PodRunning || (p.Status.Phase == corev1.PodPending && scheduled)
			for k, v := range one {
				if active {
					a.req[k] += v
				}
				if allocated {
					a.alloc[k] += v
					if !preemptible {
						a.np[k] += v
					}
				}
			}
		}
		pgAgg[g.Name] = a
		st := g.Status.ResourcesStatus
		if d := cmpList(st.Requested, a.req); d != "" {
			fail("podgroup_requested", "pod group %s requested %s", g.Name, d)
		}
		if d := cmpList(st.Allocated, a.alloc); d != "" {
			fail("podgroup_allocated", "pod group %s allocated %s", g.Name, d)
		}
		if d := cmpList(st.AllocatedNonPreemptible, a.np); d != "" {
			rule := "podgroup_nonpreemptible"
			if preemptible {
				rule = "podgroup_nonpreemptible_stale_after_flip"
			}
			fail(rule, "pod group %s (currently preemptible=%v) non-preemptible allocated %s", g.Name, preemptible, d)
		}
	}
	// queues: bottom-up expected sums, using the REPORTED pod group statuses (so that a pod group
	// mismatch is not reported twice) and the reported child statuses
	queues := api.Queues()
	byName := map[string]*schedv2.Queue{}
	for _, q := range queues {
		byName[q.Name] = q
	}
	for _, q := range queues {
		want := newAgg()
		var children []string
		for _, c := range queues {
			if c.Spec.ParentQueue == q.Name {
				children = append(children, c.Name)
				for _, r := range c20Resources {
					want.req[r] += qtyMilli(c.Status.Requested, r)
					want.alloc[r] += qtyMilli(c.Status.Allocated, r)
					want.np[r] += qtyMilli(c.Status.AllocatedNonPreemptible, r)
				}
			}
		}
		for _, g := range api.PodGroups() {
			if g.Spec.Queue == q.Name {
				for _, r := range c20Resources {
					want.req[r] += qtyMilli(g.Status.ResourcesStatus.Requested, r)
					want.alloc[r] += qtyMilli(g.Status.ResourcesStatus.Allocated, r)
					want.np[r] += qtyMilli(g.Status.ResourcesStatus.AllocatedNonPreemptible, r)
				}
			}
		}
		if d := cmpList(q.Status.Requested, want.req); d != "" {
			fail("queue_requested", "queue %s requested %s", q.Name, d)
		}
		if d := cmpList(q.Status.Allocated, want.alloc); d != "" {
			fail("queue_allocated", "queue %s allocated %s", q.Name, d)
		}
		if d := cmpList(q.Status.AllocatedNonPreemptible, want.np); d != "" {
			fail("queue_nonpreemptible", "queue %s non-preemptible allocated %s", q.Name, d)
		}
		got := append([]string(nil), q.Status.ChildQueues...)
		sort.Strings(got)
		sort.Strings(children)
		if strings.Join(got, ",") != strings.Join(children, ",") {
			fail("queue_children", "queue %s reports children %v, the API store has %v", q.Name, got, children)
		}
	}
	// idempotence: reconciling everything again writes nothing
	before := s.writes
	for _, g := range api.PodGroups() {
		_, _ = s.pgRec.Reconcile(context.Background(), ctrl.Request{NamespacedName: types.NamespacedName{Namespace: g.Namespace, Name: g.Name}})
	}
	for _, q := range queues {
		_, _ = s.qRec.Reconcile(context.Background(), ctrl.Request{NamespacedName: types.NamespacedName{Name: q.Name}})
	}
	s.observe()
	if len(s.queue) > 0 {
		fail("not_idempotent", "after quiescence one more reconcile of every object changed objects and produced new work: %v (status writes %d)", sortedKeys(s.queue), s.writes-before)
	}
	res.NonTrivial = res.Probes["c20_status_writes"] > 0
	res.Cycles = res.Probes["c20_reconciles"]
	var parts []string
	for _, g := range api.PodGroups() {
		b, _ := json.Marshal(g.Status.ResourcesStatus)
		parts = append(parts, g.Name+string(b))
	}
	for _, q := range queues {
		b, _ := json.Marshal(q.Status)
		parts = append(parts, q.Name+string(b))
	}
	res.StateHash = hashStrings(parts)
}
