package kaisim

// C04: hard placement constraints hold for every bind and nomination. The oracle re-derives the
// constraints from the API objects (node labels / taints / conditions, pod specs, pod group topology
// constraints, Topology resources) with upstream Kubernetes helper functions, never from the
// scheduler's snapshot.

import (
	"fmt"

	corev1 "k8s.io/api/core/v1"
	metav1 "k8s.io/apimachinery/pkg/apis/meta/v1"
	"k8s.io/apimachinery/pkg/labels"
	v1helper "k8s.io/component-helpers/scheduling/corev1"
	"k8s.io/component-helpers/scheduling/corev1/nodeaffinity"

	schedv2alpha2 "github.com/NVIDIA/KAI-scheduler/pkg/apis/scheduling/v2alpha2"
)

type PlacementOracle struct{ BaseOracle }

func (PlacementOracle) Prop() string { return "C04" }

func nodeLabel(n *corev1.Node, key string) (string, bool) {
	v, ok := n.Labels[key]
	return v, ok
}

func termMatches(term corev1.PodAffinityTerm, owner *corev1.Pod, other *corev1.Pod) bool {
	if other.Namespace != owner.Namespace {
		return false
	}
	sel, err := metav1.LabelSelectorAsSelector(term.LabelSelector)
	if err != nil {
		return false
	}
	return sel.Matches(labels.Set(other.Labels))
}

func (PlacementOracle) AfterCycle(r *Run, cycle int, all []Decision) {
	pre := r.Pre
	if pre == nil {
		return
	}
	ds := okDecisions(all)
	evictedEver := map[string]bool{}
	for _, d := range ds {
		if d.Kind == "evict" {
			evictedEver[d.Pod] = true
		}
	}
	groups := map[string]*schedv2alpha2.PodGroup{}
	for _, g := range r.API.PodGroups() {
		groups[g.Name] = g
	}
	topo := map[string][]string{}
	for _, tp := range r.S.World.Topologies {
		topo[tp.Name] = tp.Levels
	}
	cfg := r.S.Config
	placed := map[string]string{} // pod -> node decided in this cycle (latest)
	placedBy := map[string]string{}
	var placedOrder []string
	type occupant struct {
		pod  *corev1.Pod
		node *corev1.Node
	}
	// nodes of another node pool (and their pods) do not exist for this scheduler
	inPool := func(n *corev1.Node) bool {
		if n == nil {
			return false
		}
		if cfg.NodePoolKey == "" {
			return true
		}
		v, ok := n.Labels[cfg.NodePoolKey]
		if cfg.NodePoolValue == "" {
			return !ok
		}
		return ok && v == cfg.NodePoolValue
	}
	// strict occupants: pods that certainly are on their node when the decision takes effect
	strict := func() []occupant {
		var out []occupant
		for _, name := range sortedKeys(pre.Pods) {
			p := pre.Pods[name]
			if p.Active && !evictedEver[name] && placed[name] == "" && inPool(pre.Nodes[p.Node]) {
				out = append(out, occupant{p.Pod, pre.Nodes[p.Node]})
			}
		}
		for _, name := range placedOrder {
			if n := pre.Nodes[placed[name]]; n != nil && pre.Pods[name] != nil {
				out = append(out, occupant{pre.Pods[name].Pod, n})
			}
		}
		return out
	}
	// liberal occupants: every pod that has (or had at cycle start) a node
	liberal := func() []occupant {
		out := strict()
		for _, name := range sortedKeys(pre.Pods) {
			p := pre.Pods[name]
			if p.Node != "" && inPool(pre.Nodes[p.Node]) && !(p.Active && !evictedEver[name] && placed[name] == "") && placed[name] == "" {
				out = append(out, occupant{p.Pod, pre.Nodes[p.Node]})
			}
		}
		return out
	}
	sameDomain := func(a, b *corev1.Node, key string) bool {
		va, oka := nodeLabel(a, key)
		vb, okb := nodeLabel(b, key)
		return oka && okb && va == vb
	}
	for _, d := range ds {
		if d.Kind != "bind" && d.Kind != "pipeline" {
			if d.Kind == "evict" {
				if _, ok := placed[d.Pod]; ok {
					delete(placed, d.Pod)
				}
			}
			continue
		}
		rp := pre.Pods[d.Pod]
		if rp == nil {
			continue
		}
		pod := rp.Pod
		r.Probe("c04_placements_judged")
		node := pre.Nodes[d.Node]
		if node == nil {
			r.Fail("C04", "unknown_node", "cycle %d: %s of %s to node %q which does not exist", cycle, d.Kind, d.Pod, d.Node)
			continue
		}
		where := fmt.Sprintf("cycle %d: %s %s of %s to %s", cycle, d.Action, d.Kind, d.Pod, d.Node)
		if node.Spec.Unschedulable {
			r.Fail("C04", "node_unschedulable", "%s: node is cordoned", where)
		}
		for _, c := range node.Status.Conditions {
			if c.Type == corev1.NodeReady && c.Status != corev1.ConditionTrue {
				r.Fail("C04", "node_not_ready", "%s: node Ready condition is %s", where, c.Status)
			}
		}
		if cfg.NodePoolKey != "" {
			v, ok := node.Labels[cfg.NodePoolKey]
			if (cfg.NodePoolValue != "" && (!ok || v != cfg.NodePoolValue)) || (cfg.NodePoolValue == "" && ok) {
				r.Fail("C04", "node_outside_pool", "%s: node pool label %q=%q, scheduler serves %q", where, cfg.NodePoolKey, v, cfg.NodePoolValue)
			}
			r.Probe("c04_nodepool_judged")
		}
		if len(pod.Spec.NodeSelector) > 0 || (pod.Spec.Affinity != nil && pod.Spec.Affinity.NodeAffinity != nil) {
			r.Probe("c04_node_affinity_judged")
			if ok, _ := nodeaffinity.GetRequiredNodeAffinity(pod).Match(node); !ok {
				r.Fail("C04", "node_selector_or_affinity", "%s: node labels %v do not match selector %v / required affinity %v", where, node.Labels, pod.Spec.NodeSelector, affString(pod))
			}
		}
		if len(node.Spec.Taints) > 0 {
			r.Probe("c04_taints_judged")
			if taint, bad := v1helper.FindMatchingUntoleratedTaint(node.Spec.Taints, pod.Spec.Tolerations, func(t *corev1.Taint) bool {
				return t.Effect == corev1.TaintEffectNoSchedule || t.Effect == corev1.TaintEffectNoExecute
			}); bad {
				r.Fail("C04", "untolerated_taint", "%s: taint %s=%s:%s is not tolerated by %v", where, taint.Key, taint.Value, taint.Effect, pod.Spec.Tolerations)
			}
		}
		// inter-pod (anti-)affinity
		if a := pod.Spec.Affinity; a != nil && a.PodAntiAffinity != nil {
			for _, term := range a.PodAntiAffinity.RequiredDuringSchedulingIgnoredDuringExecution {
				r.Probe("c04_anti_affinity_judged")
				for _, oc := range strict() {
					if oc.pod.Name != pod.Name && termMatches(term, pod, oc.pod) && sameDomain(node, oc.node, term.TopologyKey) {
						r.Fail("C04", "own_anti_affinity", "%s: pod's required anti-affinity (%s over %s) is violated by %s on %s", where, metav1.FormatLabelSelector(term.LabelSelector), term.TopologyKey, oc.pod.Name, oc.node.Name)
						break
					}
				}
			}
		}
		for _, oc := range strict() {
			if oc.pod.Name == pod.Name || oc.pod.Spec.Affinity == nil || oc.pod.Spec.Affinity.PodAntiAffinity == nil {
				continue
			}
			for _, term := range oc.pod.Spec.Affinity.PodAntiAffinity.RequiredDuringSchedulingIgnoredDuringExecution {
				if termMatches(term, oc.pod, pod) && sameDomain(node, oc.node, term.TopologyKey) {
					r.Probe("c04_existing_anti_affinity_relevant")
					r.Fail("C04", "existing_anti_affinity", "%s: required anti-affinity of %s on %s (%s over %s) excludes this pod", where, oc.pod.Name, oc.node.Name, metav1.FormatLabelSelector(term.LabelSelector), term.TopologyKey)
				}
			}
		}
		if a := pod.Spec.Affinity; a != nil && a.PodAffinity != nil && len(a.PodAffinity.RequiredDuringSchedulingIgnoredDuringExecution) > 0 {
			// Kubernetes semantics (InterPodAffinity): an existing pod counts only if it matches all of the
			// incoming pod's required affinity terms; every term's topology key must exist on the node; when
			// nothing counts anywhere, a pod that matches its own terms may start the group
			terms := a.PodAffinity.RequiredDuringSchedulingIgnoredDuringExecution
			r.Probe("c04_affinity_judged")
			matchesAll := func(other *corev1.Pod) bool {
				for _, term := range terms {
					if !termMatches(term, pod, other) {
						return false
					}
				}
				return true
			}
			keysPresent, satisfied := true, true
			for _, term := range terms {
				if _, has := nodeLabel(node, term.TopologyKey); !has {
					keysPresent = false
					continue
				}
				found := false
				for _, oc := range liberal() {
					if oc.pod.Name != pod.Name && matchesAll(oc.pod) && sameDomain(node, oc.node, term.TopologyKey) {
						found = true
						break
					}
				}
				if !found {
					satisfied = false
				}
			}
			if keysPresent && !satisfied {
				anyCounted := false
				for _, oc := range strict() {
					if oc.pod.Name == pod.Name || !matchesAll(oc.pod) {
						continue
					}
					for _, term := range terms {
						if _, has := nodeLabel(oc.node, term.TopologyKey); has {
							anyCounted = true
						}
					}
				}
				if !anyCounted && matchesAll(pod) {
					satisfied = true
				}
			}
			if keysPresent && !satisfied {
				// would it hold if the pods evicted (or moved away) in this very cycle still counted? then the
				// scheduler judged the affinity against pods it is itself removing
				all := true
				for _, term := range terms {
					found := false
					for _, name := range sortedKeys(pre.Pods) {
						p := pre.Pods[name]
						if name != pod.Name && p.Node != "" && inPool(pre.Nodes[p.Node]) && matchesAll(p.Pod) && sameDomain(node, pre.Nodes[p.Node], term.TopologyKey) {
							found = true
						}
					}
					for _, dd := range ds {
						if dd.Cycle == cycle && (dd.Kind == "bind" || dd.Kind == "pipeline") && dd.Pod != pod.Name && pre.Pods[dd.Pod] != nil && pre.Nodes[dd.Node] != nil &&
							matchesAll(pre.Pods[dd.Pod].Pod) && sameDomain(node, pre.Nodes[dd.Node], term.TopologyKey) {
							found = true
						}
					}
					if !found {
						all = false
					}
				}
				if all {
					r.Fail("C04", "own_affinity_partner_evicted_in_same_cycle", "%s: required pod affinity %v is satisfied only by pods that are evicted or moved away in this cycle", where, affTerms(terms))
					satisfied = true
				}
			}
			if !keysPresent || !satisfied {
				r.Fail("C04", "own_affinity", "%s: required pod affinity %v is not satisfied in the node's domains (topology keys present on node: %v)", where, affTerms(terms), keysPresent)
			}
		}
		if _, again := placed[d.Pod]; !again {
			placedOrder = append(placedOrder, d.Pod)
		}
		placed[d.Pod] = d.Node
		placedBy[d.Pod] = d.Action
	}
	// topology constraints, per pod group that got a placement
	acted := map[string]bool{}
	for pod := range placed {
		if rp := pre.Pods[pod]; rp != nil {
			acted[rp.Group] = true
		}
	}
	for _, gname := range sortedKeys(acted) {
		g := groups[gname]
		rg := pre.Groups[gname]
		if g == nil || rg == nil {
			continue
		}
		parent := map[string]string{}
		for _, sg := range g.Spec.SubGroups {
			if sg.Parent != nil {
				parent[sg.Name] = *sg.Parent
			}
		}
		inScope := func(podSet, scope string) bool {
			if scope == "" {
				return true
			}
			for cur, hops := podSet, 0; cur != "" && hops < 8; cur, hops = parent[cur], hops+1 {
				if cur == scope {
					return true
				}
			}
			return false
		}
		type scopeT struct {
			name string
			tc   schedv2alpha2.TopologyConstraint
		}
		scopes := []scopeT{{"", g.Spec.TopologyConstraint}}
		for _, sg := range g.Spec.SubGroups {
			if sg.TopologyConstraint != nil {
				scopes = append(scopes, scopeT{sg.Name, *sg.TopologyConstraint})
			}
		}
		for _, sc := range scopes {
			if sc.tc.Topology == "" {
				continue
			}
			// nodes of the scope's pods after this cycle's decisions
			type pn struct{ pod, node string }
			var members []pn
			decided := 0
			for _, rp := range rg.Pods {
				if !inScope(rp.SubGroup, sc.name) {
					continue
				}
				if n, ok := placed[rp.Name]; ok {
					members = append(members, pn{rp.Name, n})
					decided++
				} else if rp.Active && !evictedEver[rp.Name] && inPool(pre.Nodes[rp.Node]) {
					members = append(members, pn{rp.Name, rp.Node})
				}
			}
			if decided == 0 {
				continue
			}
			r.Probe("c04_topology_scopes_judged")
			levels, exists := topo[sc.tc.Topology]
			if !exists {
				r.Fail("C04", "placed_with_missing_topology", "cycle %d: workload %s (scope %q) names topology %q which does not exist, yet %d of its pods were placed", cycle, gname, sc.name, sc.tc.Topology, decided)
				continue
			}
			if sc.tc.RequiredTopologyLevel == "" {
				continue
			}
			r.Probe("c04_required_level_judged")
			idx := -1
			for i, l := range levels {
				if l == sc.tc.RequiredTopologyLevel {
					idx = i
				}
			}
			if idx < 0 {
				continue
			}
			for _, l := range levels[:idx+1] {
				seen := map[string]string{}
				perPart := map[string]map[string]bool{} // "held" (active or placed by allocate) / solver action -> domains
				for _, m := range members {
					n := pre.Nodes[m.node]
					if n == nil {
						continue
					}
					v, ok := nodeLabel(n, l)
					if !ok {
						if _, dec := placed[m.pod]; dec {
							r.Fail("C04", "topology_node_without_label", "cycle %d: workload %s (scope %q) requires level %s of topology %s; pod %s was placed on node %s which lacks label %s", cycle, gname, sc.name, sc.tc.RequiredTopologyLevel, sc.tc.Topology, m.pod, m.node, l)
						}
						continue
					}
					seen[v] = m.pod + "@" + m.node
					part := "held"
					if by, dec := placedBy[m.pod]; dec && by != "allocate" {
						part = by
					}
					if perPart[part] == nil {
						perPart[part] = map[string]bool{}
					}
					perPart[part][v] = true
				}
				if len(seen) > 1 {
					rule := "topology_required_level_split"
					coherentParts := len(perPart) > 1
					for _, doms := range perPart {
						if len(doms) > 1 {
							coherentParts = false
						}
					}
					if coherentParts {
						// every victim-solving action placed its own pods in one domain, but not in the domain the
						// workload's other pods (running, or placed earlier in the cycle) already hold: the solvers
						// work on a copy of the job that contains only the pods they are placing
						rule += "_active_pods_ignored_by_solver"
					}
					r.Fail("C04", rule, "cycle %d: workload %s (scope %q) requires one %s domain of topology %s; after this cycle its pods span %d domains at level %s: %v", cycle, gname, sc.name, sc.tc.RequiredTopologyLevel, sc.tc.Topology, len(seen), l, seen)
					break
				}
			}
		}
	}
}

func affTerms(ts []corev1.PodAffinityTerm) []string {
	var out []string
	for _, t := range ts {
		out = append(out, metav1.FormatLabelSelector(t.LabelSelector)+" over "+t.TopologyKey)
	}
	return out
}

func affString(p *corev1.Pod) string {
	if p.Spec.Affinity == nil || p.Spec.Affinity.NodeAffinity == nil || p.Spec.Affinity.NodeAffinity.RequiredDuringSchedulingIgnoredDuringExecution == nil {
		return "-"
	}
	return fmt.Sprint(p.Spec.Affinity.NodeAffinity.RequiredDuringSchedulingIgnoredDuringExecution.NodeSelectorTerms)
}
