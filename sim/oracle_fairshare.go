package kaisim

// C09: fair-share division laws, checked on every session opened in a simulation, from the
// proportion plugin's own per-queue shares (read through the verif hook) right after OnSessionOpen.

import (
	"fmt"
	"math"
	"sort"
	"strconv"

	"github.com/NVIDIA/KAI-scheduler/pkg/scheduler/framework"
	"github.com/NVIDIA/KAI-scheduler/pkg/scheduler/plugins/proportion"
	rs "github.com/NVIDIA/KAI-scheduler/pkg/scheduler/plugins/proportion/resource_share"
)

type FairShareOracle struct {
	BaseOracle
	Shares map[int]map[string][3]float64 // cycle -> queue -> fair share (cpu, mem, gpu)
}

func (o *FairShareOracle) Prop() string { return "C09" }

type fsq struct {
	name              string
	prio              int
	D, L, W, R, F     float64
	capped, deserved  float64
	surplus           float64
	satisfied         bool
	usage             float64 // historical usage normalised to cluster capacity (time-based fair share)
}

func (o *FairShareOracle) SessionOpen(r *Run, ssn *framework.Session) {
	attrs, total := proportion.QueueAttributesForSim(ssn.PluginForSim("proportion"))
	if attrs == nil {
		return
	}
	if o.Shares == nil {
		o.Shares = map[int]map[string][3]float64{}
	}
	rec := map[string][3]float64{}
	byParent := map[string][]string{}
	for id, qa := range attrs {
		byParent[string(qa.ParentQueue)] = append(byParent[string(qa.ParentQueue)], string(id))
		rec[string(id)] = [3]float64{qa.ResourceShare(rs.CpuResource).FairShare, qa.ResourceShare(rs.MemoryResource).FairShare, qa.ResourceShare(rs.GpuResource).FairShare}
	}
	o.Shares[r.cycle] = rec
	for _, parent := range sortedKeys(byParent) {
		sibs := byParent[parent]
		sort.Strings(sibs)
		if parent != "" && attrs[queueID(parent)] == nil {
			continue
		}
		for _, res := range rs.AllResources {
			T := total[res]
			if parent != "" {
				T = attrs[queueID(parent)].ResourceShare(res).FairShare
			}
			var qs []*fsq
			for _, id := range sibs {
				sh := attrs[queueID(id)].ResourceShare(res)
				q := &fsq{name: id, prio: attrs[queueID(id)].Priority, D: sh.Deserved, L: sh.MaxAllowed, W: sh.OverQuotaWeight, R: sh.Request, F: sh.FairShare}
				q.capped = q.R
				if q.L != -1 {
					q.capped = math.Min(q.R, q.L)
				}
				d := q.D
				if d == -1 {
					d = T
				}
				q.deserved = math.Min(d, q.capped)
				q.surplus = q.F - q.deserved
				q.satisfied = q.F >= q.capped-1e-6
				if u, ok := r.S.Config.Usage[id]; ok {
					q.usage = map[string]float64{string(rs.GpuResource): u[0], string(rs.CpuResource): u[1], string(rs.MemoryResource): u[2]}[string(res)]
				}
				qs = append(qs, q)
			}
			o.laws(r, parent, string(res), T, qs)
		}
	}
}

func (o *FairShareOracle) laws(r *Run, parent, res string, T float64, qs []*fsq) {
	r.Probe("c09_sibling_sets_judged")
	eps := 1e-6 * math.Max(1, math.Abs(T))
	desc := func() string {
		s := fmt.Sprintf("parent=%q resource=%s total=%v:", parent, res, T)
		for _, q := range qs {
			s += fmt.Sprintf(" [%s prio=%d D=%v L=%v W=%v R=%v F=%v]", q.name, q.prio, q.D, q.L, q.W, q.R, q.F)
		}
		return s
	}
	sumDeserved, sumF, sumSurplus := 0.0, 0.0, 0.0
	for _, q := range qs {
		sumDeserved += q.deserved
		sumF += q.F
		sumSurplus += q.surplus
		if q.F < q.deserved-eps {
			r.Fail("C09", "below_deserved", "queue %s fair share %v < min(deserved, capped request) %v; %s", q.name, q.F, q.deserved, desc())
		}
		if q.F >= q.capped+1+eps {
			r.Fail("C09", "above_request", "queue %s fair share %v exceeds its capped request %v by a rounding unit or more; %s", q.name, q.F, q.capped, desc())
		}
	}
	left := math.Max(0, T-sumDeserved)
	if sumSurplus > left+eps {
		r.Fail("C09", "surplus_exceeds_remainder", "surplus handed out %v > what is left after deserved quotas %v; %s", sumSurplus, left, desc())
	}
	// effective over-quota weight under time-based fair share: w/sum(w of unsatisfied) + k*(that - usage), floored at 0
	k := 0.0
	if r.S.Config.Usage != nil {
		k = 1.0 // the plugin's default
		if r.S.Config.KValue != "" {
			if v, err := strconv.ParseFloat(r.S.Config.KValue, 64); err == nil && v > 0 {
				k = v
			}
		}
	}
	totalW := 0.0
	for _, q := range qs {
		if q.W > 0 && !q.satisfied {
			totalW += q.W
		}
	}
	effective := func(q *fsq) float64 {
		if q.W <= 0 || totalW <= 0 {
			return 0
		}
		nw := q.W / totalW
		return math.Max(0, nw+k*(nw-q.usage))
	}
	if T-sumF >= 1+eps && T-sumDeserved > 0 {
		for _, q := range qs {
			if effective(q) > 1e-9 && !q.satisfied {
				r.Fail("C09", "undistributed_surplus", "%v left undistributed although queue %s (weight %v) is unsatisfied (F=%v < capped request %v); %s", T-sumF, q.name, q.W, q.F, q.capped, desc())
				break
			}
		}
	}
	// a leftover below one whole unit: the division hands fractions on as well (a higher priority tier capped at 3.5 of 5
	// leaves 1.5 for the tier below). Judged when some unsatisfied queue with positive effective weight could take the
	// whole leftover.
	if left := T - sumF; left >= 0.01 && left < 1+eps && T-sumDeserved > 0 {
		for _, q := range qs {
			if effective(q) > 1e-9 && !q.satisfied && q.capped-q.F >= left-eps {
				r.Fail("C09", "undistributed_fraction", "%v left undistributed although queue %s (weight %v) is unsatisfied (F=%v < capped request %v); %s", left, q.name, q.W, q.F, q.capped, desc())
				break
			}
		}
	}
	// priorities: highest priority with a positive-weight queue unsatisfied by more than a unit
	effectiveAtPrio := func(q *fsq) float64 { // surplus is divided priority by priority: weights are normalised within the priority
		tw := 0.0
		for _, o := range qs {
			if o.prio == q.prio && o.W > 0 && !o.satisfied {
				tw += o.W
			}
		}
		if q.W <= 0 || tw <= 0 {
			return 0
		}
		nw := q.W / tw
		return math.Max(0, nw+k*(nw-q.usage))
	}
	hi, found := 0, false
	for _, q := range qs {
		if q.W > 0 && effectiveAtPrio(q) > 1e-9 && q.F < q.capped-1-eps {
			if !found || q.prio > hi {
				hi, found = q.prio, true
			}
		}
	}
	if found {
		nHigher, lowSurplus := 0, 0.0
		for _, q := range qs {
			if q.prio >= hi {
				nHigher++
			} else {
				lowSurplus += math.Max(0, q.surplus)
			}
		}
		if lowSurplus >= float64(nHigher)+eps {
			r.Fail("C09", "priority_inversion", "queues below priority %d received surplus %v although a queue of priority %d is unsatisfied (allowed: < %d); %s", hi, lowSurplus, hi, nHigher, desc())
		}
	}
	// within a priority: surplus monotone in weight (both unsatisfied), up to one unit
	for _, a := range qs {
		for _, b := range qs {
			if a == b || a.prio != b.prio || a.W <= 0 || b.W <= 0 || a.satisfied || b.satisfied {
				continue
			}
			// (with historical usage the effective weight also depends on usage: only pairs ordered the same way in both)
			if a.W >= b.W && a.usage <= b.usage && a.surplus < b.surplus-1-eps {
				r.Fail("C09", "weight_monotonicity", "queue %s (weight %v) surplus %v < queue %s (weight %v) surplus %v by more than a unit; %s", a.name, a.W, a.surplus, b.name, b.W, b.surplus, desc())
			}
		}
	}
}

// CompareShares reports queues whose fair share differs between two executions of the same
// script under different map-iteration seeds.
func CompareShares(a, b map[int]map[string][3]float64) string {
	for _, c := range []int{1} {
		for q, fa := range a[c] {
			fb, ok := b[c][q]
			if !ok {
				return fmt.Sprintf("queue %s missing", q)
			}
			for i := range fa {
				if math.Abs(fa[i]-fb[i]) > 1e-6*math.Max(1, math.Abs(fa[i])) {
					return fmt.Sprintf("cycle %d queue %s resource %d: %v vs %v", c, q, i, fa[i], fb[i])
				}
			}
		}
	}
	return ""
}
