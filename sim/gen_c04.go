package kaisim

import (
	"fmt"

	"pgregory.net/rapid"
)

const (
	ZoneLabel = "topology/zone"
	RackLabel = "topology/rack"
	HostLabel = "kubernetes.io/hostname"
)

// GenPlacementScript (C04): a mixed world decorated with node labels, taints, conditions, a node pool,
// pod selectors / affinities / tolerations / (anti-)affinity terms and topology constraints on
// workloads and (hierarchical) sub-groups.
func GenPlacementScript(t *rapid.T, thorough bool) *Script {
	o := mixedOpts(thorough)
	o.Faults, o.BindFailures, o.MIG = false, false, false
	o.MaxNodes = 6
	o.TightPods = false
	var s *Script
	if chance(t, "pressure", 25) {
		s = GenPressureScript(t, "C04", "placement-pressure", o)
		// more, smaller nodes so that domains matter
		for i := 0; i < rapid.IntRange(1, 3).Draw(t, "extranodes"); i++ {
			s.World.Nodes = append(s.World.Nodes, NodeSpec{Name: fmt.Sprintf("x%d", i), CPUm: 64000, MemMi: 262144, Pods: 110, GPUs: int64(pick(t, "xg", 1, 2, 4))})
		}
	} else {
		s = GenScript(t, "C04", "placement-mixed", o)
	}
	w := &s.World
	// --- nodes
	running := map[string]bool{}
	for _, wl := range w.Workloads {
		for _, p := range wl.Pods {
			if p.Node != "" {
				running[p.Node] = true
			}
		}
	}
	pool := ""
	if chance(t, "nodepool", 20) {
		pool = "pool-a"
		s.Config.NodePoolKey, s.Config.NodePoolValue = NodePoolKey, pool
		w.NodePool = pool
	}
	for i := range w.Nodes {
		n := &w.Nodes[i]
		if n.Labels == nil {
			n.Labels = map[string]string{}
		}
		z := rapid.IntRange(0, 1).Draw(t, "zone")
		if chance(t, "haszone", 88) {
			n.Labels[ZoneLabel] = fmt.Sprintf("z%d", z)
		}
		if chance(t, "hasrack", 88) {
			n.Labels[RackLabel] = fmt.Sprintf("r%d%d", z, rapid.IntRange(0, 1).Draw(t, "rack"))
		}
		if chance(t, "hasdisk", 70) {
			n.Labels["disk"] = pick(t, "disk", "ssd", "hdd")
		}
		if pool != "" {
			switch pick(t, "npool", "in", "in", "in", "other", "none") {
			case "in":
				n.Labels[NodePoolKey] = pool
			case "other":
				n.Labels[NodePoolKey] = "pool-b"
			}
		}
		if chance(t, "tainted", 22) {
			n.Taints = append(n.Taints, pick(t, "taint", TaintSpec{"dedicated", "a", "NoSchedule"}, TaintSpec{"dedicated", "b", "NoExecute"},
				TaintSpec{"soft", "x", "PreferNoSchedule"}, TaintSpec{"dedicated", "b", "NoSchedule"}))
		}
		if !running[n.Name] {
			if chance(t, "notready", 7) {
				n.NotReady = true
			}
			if chance(t, "cordoned", 7) {
				n.Unschedulable = true
			}
		}
	}
	levels := []string{ZoneLabel, RackLabel}
	if chance(t, "hostlevel", 40) {
		levels = append(levels, HostLabel)
	}
	w.Topologies = []TopologySpec{{Name: "topo", Levels: levels}}
	if chance(t, "topo2", 25) {
		w.Topologies = append(w.Topologies, TopologySpec{Name: "racks", Levels: []string{RackLabel}})
	}
	nodeOf := map[string]*NodeSpec{}
	for i := range w.Nodes {
		nodeOf[w.Nodes[i].Name] = &w.Nodes[i]
	}
	genTopo := func(label string) *TopoConstraint {
		tc := &TopoConstraint{Topology: "topo"}
		switch pick(t, label+"which", "topo", "topo", "topo", "topo", "racks", "missing") {
		case "racks":
			if len(w.Topologies) > 1 {
				tc.Topology = "racks"
			}
		case "missing":
			tc.Topology = "no-such-topology"
		}
		lv := levels
		if tc.Topology == "racks" {
			lv = []string{RackLabel}
		}
		tc.Required = pick(t, label+"req", append([]string{"", ""}, lv...)...)
		tc.Preferred = pick(t, label+"pref", append([]string{"", ""}, lv...)...)
		if tc.Required == "" && tc.Preferred == "" {
			tc.Required = lv[0]
		}
		return tc
	}
	tiers := []string{"a", "b"}
	for wi := range w.Workloads {
		wl := &w.Workloads[wi]
		tier := pick(t, "tier", tiers...)
		var sel map[string]string
		var aff []AffinityTerm
		var tol []TolerationSpec
		var paff []PodAffSpec
		if chance(t, "nodesel", 20) {
			sel = pick(t, "selv", map[string]string{"disk": "ssd"}, map[string]string{"disk": "hdd"}, map[string]string{ZoneLabel: "z0"}, map[string]string{ZoneLabel: "z1", "disk": "ssd"})
		}
		if chance(t, "nodeaff", 22) {
			n := rapid.IntRange(1, 2).Draw(t, "naff")
			for k := 0; k < n; k++ {
				aff = append(aff, pick(t, "affv",
					AffinityTerm{ZoneLabel, "In", []string{"z0"}}, AffinityTerm{ZoneLabel, "In", []string{"z0", "z1"}}, AffinityTerm{RackLabel, "NotIn", []string{"r00", "r10"}},
					AffinityTerm{"disk", "Exists", nil}, AffinityTerm{"disk", "DoesNotExist", nil}, AffinityTerm{"nvidia.com/gpu.count", "Gt", []string{"1"}},
					AffinityTerm{RackLabel, "In", []string{"r01", "r11"}}))
			}
		}
		if chance(t, "tolerates", 35) {
			n := rapid.IntRange(1, 2).Draw(t, "ntol")
			for k := 0; k < n; k++ {
				tol = append(tol, pick(t, "tolv",
					TolerationSpec{Key: "dedicated", Operator: "Equal", Value: "a", Effect: "NoSchedule"},
					TolerationSpec{Key: "dedicated", Operator: "Exists"},
					TolerationSpec{Operator: "Exists"},
					TolerationSpec{Key: "dedicated", Operator: "Equal", Value: "b", Effect: "NoExecute"},
					TolerationSpec{Key: "dedicated", Operator: "Equal", Value: "b"},
					TolerationSpec{Key: "soft", Operator: "Exists", Effect: "PreferNoSchedule"}))
			}
		}
		if chance(t, "podaff", 28) {
			n := rapid.IntRange(1, 2).Draw(t, "npaff")
			for k := 0; k < n; k++ {
				paff = append(paff, pick(t, "paffv",
					PodAffSpec{Anti: true, TopologyKey: HostLabel, MatchLabels: map[string]string{"app": wl.Name}},
					PodAffSpec{Anti: true, TopologyKey: HostLabel, MatchLabels: map[string]string{"tier": pick(t, "ptier", tiers...)}},
					PodAffSpec{Anti: true, TopologyKey: ZoneLabel, MatchLabels: map[string]string{"tier": pick(t, "ptier2", tiers...)}},
					PodAffSpec{Anti: false, TopologyKey: ZoneLabel, MatchLabels: map[string]string{"tier": pick(t, "ptier3", tiers...)}},
					PodAffSpec{Anti: false, TopologyKey: ZoneLabel, MatchLabels: map[string]string{"app": wl.Name}},
					PodAffSpec{Anti: false, TopologyKey: HostLabel, MatchLabels: map[string]string{"tier": pick(t, "ptier4", tiers...)}}))
			}
		}
		for pi := range wl.Pods {
			p := &wl.Pods[pi]
			if p.OtherSched {
				continue
			}
			if p.Labels == nil {
				p.Labels = map[string]string{}
			}
			p.Labels["app"], p.Labels["tier"] = wl.Name, tier
			p.NodeSelector, p.NodeAffinity, p.Tolerations, p.PodAffinity = sel, aff, tol, paff
		}
		// hierarchical sub-groups: a parent set over the first two pod sets
		flat := true
		for _, sg := range wl.SubGroups {
			if sg.Parent != "" {
				flat = false
			}
		}
		if flat && len(wl.SubGroups) >= 2 && chance(t, "hier", 35) {
			parent := SubGroupSpec{Name: "top0", MinMember: 1}
			if chance(t, "hiertopo", 70) {
				parent.Topo = genTopo("ptopo")
			}
			wl.SubGroups[0].Parent, wl.SubGroups[1].Parent = "top0", "top0"
			wl.SubGroups = append(wl.SubGroups, parent)
		}
		if chance(t, "wtopo", 35) {
			wl.Topo = genTopo("wtopo")
		}
		for k := range wl.SubGroups {
			innerNode := false
			for _, o2 := range wl.SubGroups {
				if o2.Parent == wl.SubGroups[k].Name {
					innerNode = true
				}
			}
			if !innerNode && chance(t, "sgtopo", 25) {
				wl.SubGroups[k].Topo = genTopo("sgtopo")
				if wl.Topo != nil && wl.SubGroups[k].Topo.Topology != "no-such-topology" {
					wl.SubGroups[k].Topo.Topology = wl.Topo.Topology // nested constraints name one tree
					if wl.Topo.Topology == "racks" {
						wl.SubGroups[k].Topo.Required, wl.SubGroups[k].Topo.Preferred = RackLabel, ""
					}
				}
			}
		}
		// pods that already run must already satisfy the required levels, otherwise nothing can
		topoOK := func(tc *TopoConstraint, set string) bool {
			if tc == nil || tc.Required == "" {
				return true
			}
			var lv []string
			for _, tp := range w.Topologies {
				if tp.Name == tc.Topology {
					lv = tp.Levels
				}
			}
			seen := map[string]string{}
			for _, p := range wl.Pods {
				if p.Node == "" || (set != "" && p.SubGroup != set && !(set == "top0" && (p.SubGroup == wl.SubGroups[0].Name || p.SubGroup == wl.SubGroups[1].Name))) {
					continue
				}
				for _, l := range lv {
					v, ok := nodeOf[p.Node].Labels[l]
					if l == HostLabel {
						v, ok = p.Node, true
					}
					if !ok {
						return false
					}
					if old, had := seen[l]; had && old != v {
						return false
					}
					seen[l] = v
					if l == tc.Required {
						break
					}
				}
			}
			return true
		}
		if !topoOK(wl.Topo, "") {
			wl.Topo = nil
		}
		for k := range wl.SubGroups {
			if !topoOK(wl.SubGroups[k].Topo, wl.SubGroups[k].Name) {
				wl.SubGroups[k].Topo = nil
			}
		}
	}
	return s
}
