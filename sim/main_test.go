package kaisim

import (
	"crypto/sha256"
	"encoding/hex"
	"encoding/json"
	"flag"
	"fmt"
	"os"
	"regexp"
	"sort"
	"strconv"
	"strings"
	"testing"
	"time"

	"pgregory.net/rapid"
)

func hashStrings(parts []string) string {
	h := sha256.New()
	for _, p := range parts {
		h.Write([]byte(p))
		h.Write([]byte{0})
	}
	return hex.EncodeToString(h.Sum(nil))[:16]
}

func envInt(name string, def int) int {
	if v := os.Getenv(name); v != "" {
		if n, err := strconv.Atoi(v); err == nil {
			return n
		}
	}
	return def
}

type KnownFinding struct {
	Prop     string `json:"property"`
	Rule     string `json:"rule_regex"`
	Contains string `json:"detail_contains"`
	What     string `json:"what"`
	Status   string `json:"status"` // open | fixed
}

func loadKnown() []KnownFinding {
	var out struct {
		Findings []KnownFinding `json:"findings"`
	}
	b, err := os.ReadFile(os.Getenv("KAISIM_KNOWN"))
	if err != nil {
		return nil
	}
	if err := json.Unmarshal(b, &out); err != nil {
		panic("known findings file unreadable: " + err.Error())
	}
	var open []KnownFinding
	for _, f := range out.Findings {
		if f.Status == "open" {
			open = append(open, f)
		}
	}
	return open
}

func matchKnown(known []KnownFinding, v Violation) *KnownFinding {
	for i := range known {
		k := &known[i]
		if k.Prop == v.Prop && regexp.MustCompile(k.Rule).MatchString(v.Rule) && strings.Contains(v.Detail, k.Contains) {
			return k
		}
	}
	return nil
}

// WorkerStats is what one worker process reports to the driver.
type WorkerStats struct {
	Prop          string              `json:"prop"`
	Seed          uint64              `json:"seed"`
	Runs          int                 `json:"runs"`
	NonTrivial    int                 `json:"non_trivial"`
	Cycles        int                 `json:"cycles"`
	SimSeconds    float64             `json:"sim_seconds"`
	WallSeconds   float64             `json:"wall_seconds"`
	Probes        map[string]int      `json:"probes"`
	Faults        map[string]int      `json:"faults_fired"`
	Profiles      map[string]int      `json:"profiles"`
	StateHashes   map[string]struct{} `json:"-"`
	Distinct      int                 `json:"distinct_histories"`
	DistinctNT    int                 `json:"distinct_nontrivial"`
	Samples       []json.RawMessage   `json:"samples"`
	Known         map[string]int      `json:"known_findings"`
	Violation     *Violation          `json:"violation,omitempty"`
	Replay        string              `json:"replay,omitempty"`
	ShrinkRuns    int                 `json:"shrink_runs"`
	HashList      []string            `json:"hash_list,omitempty"`
	ntHashes      map[string]struct{} `json:"-"`
	ReplayClasses []string            `json:"replay_classes,omitempty"`
	Census        map[string]int      `json:"census,omitempty"`
	CensusEx      map[string]string   `json:"census_examples,omitempty"`
}

func newStats(prop string, seed uint64) *WorkerStats {
	return &WorkerStats{Prop: prop, Seed: seed, Probes: map[string]int{}, Faults: map[string]int{}, Profiles: map[string]int{},
		StateHashes: map[string]struct{}{}, ntHashes: map[string]struct{}{}, Known: map[string]int{}}
}

func (ws *WorkerStats) add(s *Script, res *Result) {
	ws.Runs++
	ws.Cycles += res.Cycles
	ws.SimSeconds += res.SimSeconds
	ws.Profiles[s.Profile]++
	for k, v := range res.Probes {
		ws.Probes[k] += v
	}
	for k, v := range res.Faults {
		ws.Faults[k] += v
	}
	ws.StateHashes[res.StateHash] = struct{}{}
	if res.NonTrivial {
		ws.NonTrivial++
		ws.ntHashes[res.StateHash] = struct{}{}
	}
	if len(ws.Samples) < 2 && res.NonTrivial {
		b, _ := json.Marshal(map[string]any{"script": s, "cycles": res.Cycles, "probes": res.Probes, "state_hash": res.StateHash})
		ws.Samples = append(ws.Samples, b)
	}
}

func (ws *WorkerStats) write() {
	ws.Distinct = len(ws.StateHashes)
	ws.DistinctNT = len(ws.ntHashes)
	if os.Getenv("KAISIM_HASHLIST") != "" {
		for h := range ws.ntHashes {
			ws.HashList = append(ws.HashList, h)
		}
		sort.Strings(ws.HashList)
	}
	out := os.Getenv("KAISIM_OUT")
	if out == "" {
		return
	}
	b, _ := json.MarshalIndent(ws, "", " ")
	_ = os.WriteFile(out, b, 0o644)
}

// TestProp: the worker entry point. Env: KAISIM_PROP, KAISIM_SEED, KAISIM_BUDGET_S, KAISIM_MAXRUNS,
// KAISIM_OUT, KAISIM_REPLAY_DIR, KAISIM_KNOWN, KAISIM_TIER.
func TestProp(t *testing.T) {
	prop := os.Getenv("KAISIM_PROP")
	if prop == "" {
		t.Skip("KAISIM_PROP not set")
	}
	if prop == "C11" {
		seed := uint64(envInt("KAISIM_SEED", 1))
		ws := newStats(prop, seed)
		defer ws.write()
		if os.Getenv("KAISIM_CENSUS") != "" {
			ws.Census, ws.CensusEx = map[string]int{}, map[string]string{}
		}
		RunC11(t, ws, int(seed%1000), envInt("KAISIM_NWORKERS", 1), os.Getenv("KAISIM_TIER") == "thorough", loadKnown())
		return
	}
	def, ok := Props[prop]
	if !ok {
		t.Fatalf("unknown property %s", prop)
	}
	seed := uint64(envInt("KAISIM_SEED", 1))
	budget := time.Duration(envInt("KAISIM_BUDGET_S", 20)) * time.Second
	maxRuns := envInt("KAISIM_MAXRUNS", 1<<30)
	thorough := os.Getenv("KAISIM_TIER") == "thorough"
	known := loadKnown()
	census := os.Getenv("KAISIM_CENSUS") != ""
	ws := newStats(prop, seed)
	defer ws.write()
	start := time.Now()
	batch := 0
	var firstClass string
	for time.Since(start) < budget && ws.Runs < maxRuns && ws.Violation == nil {
		batch++
		must(flag.Set("rapid.seed", strconv.FormatUint(seed*1000003+uint64(batch), 10)))
		must(flag.Set("rapid.checks", "200"))
		must(flag.Set("rapid.shrinktime", "45s"))
		must(flag.Set("rapid.nofailfile", "true"))
		var lastFail *Script
		var lastViol Violation
		shrinking := false
		t.Run(fmt.Sprintf("batch%d", batch), func(t *testing.T) {
			defer func() {
				// rapid reports failure through t.Fatalf -> this subtest fails; swallow here
			}()
			ft := &failCatcher{T: t}
			rapid.Check(ft, func(rt *rapid.T) {
				if !shrinking && (time.Since(start) >= budget || ws.Runs >= maxRuns) {
					return
				}
				s := def.Gen(rt, thorough)
				ors := def.Oracles()
				if rl := os.Getenv("KAISIM_RECORD_LAST"); rl != "" {
					// a previous identical worker died with a Go fatal error: leave the script that is about to run on disk
					b, _ := json.MarshalIndent(map[string]any{"property": prop, "seed": seed, "class": prop + "/fatal_error", "detail": "the process died with a Go runtime fatal error while running this script", "script": s}, "", " ")
					_ = os.WriteFile(rl, b, 0o644)
				}
				res := RunScript(t, s, ors, false)
				if def.Post != nil && res.Panic == "" {
					def.Post(t, s, ors, res)
				}
				if shrinking {
					ws.ShrinkRuns++
				} else {
					ws.add(s, res)
				}
				if res.Panic != "" {
					b, _ := json.MarshalIndent(map[string]any{"property": prop, "class": "INFRA/harness_panic", "detail": res.Panic, "script": s}, "", " ")
					_ = os.WriteFile(fmt.Sprintf("%s/panic-%s-%d.json", os.Getenv("KAISIM_REPLAY_DIR"), prop, seed), b, 0o644)
					res.Violations = append(res.Violations, Violation{Prop: "INFRA", Rule: "harness_panic", Detail: res.Panic})
				}
				for _, v := range res.Violations {
					if census {
						if ws.Census == nil {
							ws.Census, ws.CensusEx = map[string]int{}, map[string]string{}
						}
						ws.Census[v.Class()]++
						if _, ok := ws.CensusEx[v.Class()]; !ok {
							ws.CensusEx[v.Class()] = v.Detail
							b, _ := json.MarshalIndent(map[string]any{"property": v.Prop, "class": v.Class(), "detail": v.Detail, "script": s}, "", " ")
							_ = os.WriteFile(fmt.Sprintf("%s/census-%s-%s-%d.json", os.Getenv("KAISIM_REPLAY_DIR"), v.Prop, v.Rule, seed), b, 0o644)
						}
						continue
					}
					if v.Prop != prop && v.Prop != "INFRA" {
						continue
					}
					if k := matchKnown(known, v); k != nil {
						ws.Known[k.Prop+" "+k.What]++
						continue
					}
					if firstClass == "" {
						firstClass = v.Class()
					}
					if v.Class() != firstClass {
						continue
					}
					shrinking = true
					lastFail, lastViol = s, v
					rt.Fatalf("%s: %s", v.Class(), v.Detail)
				}
			})
		})
		if lastFail != nil {
			min, mv, mruns := Minimize(t, lastFail, def, lastViol.Class(), known, 40*time.Second)
			ws.ShrinkRuns += mruns
			if mv.Rule != "" {
				lastFail, lastViol = min, mv
			}
			ws.Violation = &lastViol
			dir := os.Getenv("KAISIM_REPLAY_DIR")
			if dir == "" {
				dir = "."
			}
			path := fmt.Sprintf("%s/%s-%d.json", dir, prop, seed)
			b, _ := json.MarshalIndent(map[string]any{"property": prop, "seed": seed, "class": lastViol.Class(), "detail": lastViol.Detail, "script": lastFail}, "", " ")
			must(os.WriteFile(path, b, 0o644))
			ws.Replay = path
		}
	}
	ws.WallSeconds = time.Since(start).Seconds()
}

// failCatcher lets rapid report a failing property without failing the worker process' test.
type failCatcher struct {
	*testing.T
	failed bool
}

func (f *failCatcher) Fatalf(format string, args ...any) { f.failed = true; f.T.Logf(format, args...) }
func (f *failCatcher) Errorf(format string, args ...any) { f.failed = true; f.T.Logf(format, args...) }
func (f *failCatcher) Fatal(args ...any)                 { f.failed = true; f.T.Log(args...) }
func (f *failCatcher) Error(args ...any)                 { f.failed = true; f.T.Log(args...) }
func (f *failCatcher) FailNow()                          { f.failed = true }
func (f *failCatcher) Fail()                             { f.failed = true }
func (f *failCatcher) Failed() bool                      { return f.failed }

// TestReplay re-executes a replay file (fresh process) and reports the violation classes found.
func TestReplay(t *testing.T) {
	path := os.Getenv("KAISIM_REPLAY")
	if path == "" {
		t.Skip("KAISIM_REPLAY not set")
	}
	b, err := os.ReadFile(path)
	must(err)
	var rf struct {
		Property string   `json:"property"`
		Class    string   `json:"class"`
		Script   *Script  `json:"script"`
		C11      *C11Case `json:"c11_case"`
		// ClassOnly: a corpus entry whose (minimised) script ends before the system settles: only the recorded class counts
		ClassOnly bool `json:"corpus_class_only"`
	}
	must(json.Unmarshal(b, &rf))
	if rf.C11 != nil {
		ws := newStats("C11", 0)
		defer ws.write()
		o := runC11Case(t, *rf.C11)
		ws.Runs++
		for _, c := range o.Calls {
			fmt.Println("CALL", c)
		}
		c11known := loadKnown()
		for _, v := range o.Violation {
			fmt.Printf("REPLAY-VIOLATION %s: %s\n", v.Class(), v.Detail)
			if os.Getenv("KAISIM_CORPUS") != "" && ws.Violation == nil {
				if k := matchKnown(c11known, v); k != nil {
					ws.Known[k.Prop+" "+k.What]++
					continue
				}
				vv := v
				ws.Violation = &vv
				continue
			}
			if v.Class() == rf.Class && ws.Violation == nil {
				vv := v
				ws.Violation = &vv
			}
		}
		return
	}
	def, ok := Props[rf.Property]
	if !ok {
		def = Props[rf.Script.Prop]
	}
	ws := newStats(rf.Property, 0)
	defer ws.write()
	ors := def.Oracles()
	if os.Getenv("KAISIM_DEBUG_EVENTS") != "" {
		ors = append(ors, &AccountingOracle{})
	}
	res := RunScript(t, rf.Script, ors, true)
	if def.Post != nil && res.Panic == "" {
		def.Post(t, rf.Script, ors, res)
	}
	ws.add(rf.Script, res)
	corpus := os.Getenv("KAISIM_CORPUS") != "" && !rf.ClassOnly
	var known []KnownFinding
	if corpus {
		known = loadKnown()
		if res.Panic != "" && len(res.Violations) == 0 {
			res.Violations = append(res.Violations, Violation{Prop: "INFRA", Rule: "harness_panic", Detail: res.Panic})
		}
	}
	for _, v := range res.Violations {
		ws.ReplayClasses = append(ws.ReplayClasses, v.Class())
		fmt.Printf("REPLAY-VIOLATION %s: %s\n", v.Class(), v.Detail)
		// corpus mode: the script once exposed a defect that has been repaired; any violation that
		// is not a listed open finding counts, not only the recorded class
		if corpus && ws.Violation == nil {
			if v.Prop != rf.Property && v.Prop != "INFRA" {
				continue
			}
			if k := matchKnown(known, v); k != nil {
				ws.Known[k.Prop+" "+k.What]++
				continue
			}
			vv := v
			ws.Violation = &vv
			continue
		}
		if v.Class() == rf.Class && ws.Violation == nil {
			vv := v
			ws.Violation = &vv
		}
	}
	if os.Getenv("KAISIM_TRACE") != "" {
		tb, _ := json.MarshalIndent(res, "", " ")
		_ = os.WriteFile(os.Getenv("KAISIM_TRACE"), tb, 0o644)
	}
	fmt.Printf("REPLAY-HASH %s\n", res.StateHash)
}

// TestDeterminism prints one line per generated script: index and history hash. The driver runs it
// in several fresh processes with different GOMAXPROCS and diffs the output.
func TestDeterminism(t *testing.T) {
	prop := os.Getenv("KAISIM_DET_PROP")
	if prop == "" {
		t.Skip("KAISIM_DET_PROP not set")
	}
	def := Props[prop]
	n := envInt("KAISIM_DET_N", 30)
	must(flag.Set("rapid.seed", strconv.Itoa(envInt("KAISIM_SEED", 7))))
	must(flag.Set("rapid.checks", strconv.Itoa(n)))
	must(flag.Set("rapid.nofailfile", "true"))
	i := 0
	rapid.Check(t, func(rt *rapid.T) {
		s := def.Gen(rt, false)
		res := RunScript(t, s, def.Oracles(), true)
		// the scheduler's status updater (pod conditions, pod group status) sends through an asynchronous worker that
		// coalesces updates depending on real timing; no oracle reads that traffic and no fault targets it, so it is left
		// out of the history hash (residual nondeterminism, DESIGN.md 3.4)
		var hist []Call
		for _, c := range res.History {
			if c.Actor == "scheduler" && (c.Sub == "status" || c.Resource == "podgroups" || c.Resource == "events") {
				continue
			}
			hist = append(hist, c)
		}
		for i := range hist {
			hist[i].Seq = i
		}
		hb, _ := json.Marshal(hist)
		db, _ := json.Marshal(res.Decisions)
		fmt.Printf("DET %s %d %s %s %s\n", prop, i, res.StateHash, hashStrings([]string{string(hb)}), hashStrings([]string{string(db)}))
		if dd := os.Getenv("KAISIM_DET_DUMP"); dd != "" {
			b, _ := json.MarshalIndent(map[string]any{"property": prop, "class": "DET/dump", "script": s}, "", " ")
			_ = os.WriteFile(fmt.Sprintf("%s/det-%s-%d.json", dd, prop, i), b, 0o644)
			tb, _ := json.MarshalIndent(res, "", " ")
			_ = os.WriteFile(fmt.Sprintf("%s/det-%s-%d.%s.trace.json", dd, prop, i, os.Getenv("KAISIM_DET_TAG")), tb, 0o644)
		}
		i++
	})
}
