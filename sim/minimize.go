package kaisim

// Structural minimisation of a failing script (post-pass after rapid's own shrinking): greedily
// drop statement ops, environment ops, faults, workloads, pods, nodes and queues while the same
// violation class persists.

import (
	"encoding/json"
	"testing"
	"time"
)

func cloneScript(s *Script) *Script {
	b, _ := json.Marshal(s)
	var c Script
	_ = json.Unmarshal(b, &c)
	return &c
}

func failsWith(t *testing.T, s *Script, def PropDef, class string, known []KnownFinding) (bool, Violation) {
	ors := def.Oracles()
	res := RunScript(t, s, ors, false)
	if def.Post != nil && res.Panic == "" {
		def.Post(t, s, ors, res)
	}
	for _, v := range res.Violations {
		if v.Class() == class && matchKnown(known, v) == nil {
			return true, v
		}
	}
	return false, Violation{}
}

func Minimize(t *testing.T, s *Script, def PropDef, class string, known []KnownFinding, budget time.Duration) (*Script, Violation, int) {
	start := time.Now()
	cur := cloneScript(s)
	_, curV := failsWith(t, cur, def, class, known)
	runs := 0
	try := func(c *Script) bool {
		if time.Since(start) > budget {
			return false
		}
		runs++
		ok, v := failsWith(t, c, def, class, known)
		if ok {
			cur, curV = c, v
		}
		return ok
	}
	for changed := true; changed && time.Since(start) < budget; {
		changed = false
		for i := len(cur.StmtProgram) - 1; i >= 0; i-- {
			if i >= len(cur.StmtProgram) {
				continue
			}
			c := cloneScript(cur)
			c.StmtProgram = append(c.StmtProgram[:i], c.StmtProgram[i+1:]...)
			if try(c) {
				changed = true
			}
		}
		for i := len(cur.Ops) - 1; i >= 0; i-- {
			if i >= len(cur.Ops) {
				continue
			}
			c := cloneScript(cur)
			c.Ops = append(c.Ops[:i], c.Ops[i+1:]...)
			if try(c) {
				changed = true
			}
		}
		for i := len(cur.Faults) - 1; i >= 0; i-- {
			if i >= len(cur.Faults) {
				continue
			}
			c := cloneScript(cur)
			c.Faults = append(c.Faults[:i], c.Faults[i+1:]...)
			if try(c) {
				changed = true
			}
		}
		for k := range cur.BindFail {
			c := cloneScript(cur)
			delete(c.BindFail, k)
			if try(c) {
				changed = true
			}
		}
		for i := len(cur.World.Workloads) - 1; i >= 0; i-- {
			if i >= len(cur.World.Workloads) {
				continue
			}
			c := cloneScript(cur)
			c.World.Workloads = append(c.World.Workloads[:i], c.World.Workloads[i+1:]...)
			if try(c) {
				changed = true
				continue
			}
			w := cur.World.Workloads[i]
			for j := len(w.Pods) - 1; j >= 0 && len(w.Pods) > 1; j-- {
				if i >= len(cur.World.Workloads) || j >= len(cur.World.Workloads[i].Pods) || len(cur.World.Workloads[i].Pods) <= 1 {
					continue
				}
				c := cloneScript(cur)
				cw := &c.World.Workloads[i]
				cw.Pods = append(cw.Pods[:j], cw.Pods[j+1:]...)
				if len(cw.SubGroups) == 0 && int(cw.MinMember) > len(cw.Pods) {
					cw.MinMember = int32(len(cw.Pods))
				}
				if try(c) {
					changed = true
				}
			}
		}
		used := map[string]bool{}
		for _, w := range cur.World.Workloads {
			for _, p := range w.Pods {
				used[p.Node] = true
			}
		}
		for i := len(cur.World.Nodes) - 1; i >= 0; i-- {
			if i >= len(cur.World.Nodes) || used[cur.World.Nodes[i].Name] || len(cur.World.Nodes) <= 1 {
				continue
			}
			if cur.Prop == "C10" && cur.World.Nodes[i].Name == "nw" {
				continue // the witness workload's own node: without it the witness is not healthy any more
			}
			c := cloneScript(cur)
			c.World.Nodes = append(c.World.Nodes[:i], c.World.Nodes[i+1:]...)
			if try(c) {
				changed = true
			}
		}
		usedQ := map[string]bool{}
		for _, w := range cur.World.Workloads {
			usedQ[w.Queue] = true
		}
		for _, q := range cur.World.Queues {
			usedQ[q.Parent] = true
		}
		for i := len(cur.World.Queues) - 1; i >= 0; i-- {
			if i >= len(cur.World.Queues) || usedQ[cur.World.Queues[i].Name] {
				continue
			}
			c := cloneScript(cur)
			c.World.Queues = append(c.World.Queues[:i], c.World.Queues[i+1:]...)
			if try(c) {
				changed = true
			}
		}
	}
	return cur, curV, runs
}
