package kaisim

// Oracles over the decision set of one cycle (Bind / Evict / TaskPipelined observed at the
// cache.Cache seam), judged against the API state captured at the start of the cycle.

import (
	"os"
	"fmt"
	"math"
	"sort"
	"strings"
	"time"
)

func okDecisions(ds []Decision) []Decision {
	var out []Decision
	for _, d := range ds {
		// an eviction that failed because the pod no longer exists has the effect of an eviction: the pod is gone
		if d.Err == "" || (d.Kind == "evict" && strings.Contains(d.Err, "not found")) {
			out = append(out, d)
		}
	}
	return out
}

// ---------------------------------------------------------------------------------- C03

type GangOracle struct{ BaseOracle }

func (GangOracle) Prop() string { return "C03" }

func (GangOracle) AfterCycle(r *Run, cycle int, all []Decision) {
	pre := r.Pre
	if pre == nil {
		return
	}
	ds := okDecisions(all)
	type cnt struct{ binds, evicts, pipes, consolidationEvicts int }
	per := map[string]map[string]*cnt{} // group -> set -> counts
	get := func(g, s string) *cnt {
		if per[g] == nil {
			per[g] = map[string]*cnt{}
		}
		if per[g][s] == nil {
			per[g][s] = &cnt{}
		}
		return per[g][s]
	}
	renominated := map[string]bool{} // pods evicted and nominated again in this cycle (moved)
	for _, d := range ds {
		if d.Kind == "pipeline" {
			renominated[d.Pod] = true
		}
	}
	// replay the decisions in order over the "active" flag of every pod
	active := map[string]bool{}
	for n, p := range pre.Pods {
		active[n] = p.Active
	}
	for _, d := range ds {
		p := pre.Pods[d.Pod]
		if p == nil || pre.Groups[p.Group] == nil {
			continue
		}
		c := get(p.Group, p.SubGroup)
		switch d.Kind {
		case "bind":
			c.binds++
			active[d.Pod] = true
		case "pipeline":
			c.pipes++
		case "evict":
			if active[d.Pod] {
				c.evicts++
				if renominated[d.Pod] {
					c.consolidationEvicts++
				}
				active[d.Pod] = false
			}
		}
	}
	for _, gname := range sortedKeys(per) {
		g := pre.Groups[gname]
		totalBefore, totalAfter, totalEvicts, totalBinds, totalConsEvicts := 0, 0, 0, 0, 0
		allSetsOK, explainedByMoves := true, true
		for _, sname := range sortedKeys(g.Sets) {
			set := g.Sets[sname]
			before := g.ActiveCount(sname)
			after := 0
			for _, p := range set.Pods {
				if active[p.Name] {
					after++
				}
			}
			c := per[gname][sname]
			if c == nil {
				c = &cnt{}
			}
			totalBefore += before
			totalAfter += after
			totalEvicts += c.evicts
			totalConsEvicts += c.consolidationEvicts
			totalBinds += c.binds
			if after < int(set.Min) && before+c.binds >= int(set.Min) && (c.evicts > 0 || c.binds > 0) {
				allSetsOK = false
				if after+c.consolidationEvicts < int(set.Min) {
					explainedByMoves = false
				}
			}
			if c.binds+c.evicts+c.pipes == 0 {
				continue
			}
			r.Probe("c03_podsets_judged")
			if c.binds > 0 && before+c.binds < int(set.Min) && after > 0 {
				r.Fail("C03", "bind_below_min", "cycle %d: workload %s pod set %q: %d active before, %d bound, %d evicted -> %d active < min %d",
					cycle, gname, sname, before, c.binds, c.evicts, after, set.Min)
			}
			if c.pipes > 0 && c.binds > 0 && before+c.binds < int(set.Min) {
				r.Fail("C03", "partial_bind_with_nomination", "cycle %d: workload %s pod set %q below its minimum (%d active, min %d) had %d pods bound and %d only nominated in the same cycle",
					cycle, gname, sname, before, set.Min, c.binds, c.pipes)
			}
		}
		if totalEvicts > 0 {
			r.Probe("c03_evicted_workloads_judged")
			if !allSetsOK && totalAfter != 0 {
				rule := "partial_eviction"
				if totalConsEvicts > 0 && explainedByMoves {
					rule = "partial_eviction_with_renomination"
				}
				r.Fail("C03", rule, "cycle %d: workload %s: %d pods evicted (%d of them nominated again elsewhere) of %d active before and %d bound in the cycle, leaving %d active with a pod set below its minimum",
					cycle, gname, totalEvicts, totalConsEvicts, totalBefore, totalBinds, totalAfter)
			}
		}
		if totalEvicts == 0 && totalBinds > 0 && totalBefore == 0 && !allSetsOK && totalAfter != 0 {
			r.Fail("C03", "fresh_gang_partial", "cycle %d: workload %s had no active pods and %d were bound, but not every pod set reaches its minimum", cycle, gname, totalBinds)
		}
	}
}

// ---------------------------------------------------------------------------------- C06

type VictimOracle struct{ BaseOracle }

func (VictimOracle) Prop() string { return "C06" }

// minRuntime resolves the protection period of a victim for an action, from the documented
// rule: the queue's own value, else the nearest ancestor's, else the plugin default (0).
func queueChain(pre *CycleState, queue string) []string {
	var chain []string // leaf ... root
	seen := map[string]bool{}
	for q := pre.Queues[queue]; q != nil && !seen[q.Name]; q = pre.Queues[q.Parent] {
		seen[q.Name] = true
		chain = append(chain, q.Name)
	}
	return chain
}

// minRuntime: documented resolution (docs/plugins/minruntime.md). Preempt: victim's queue, then
// up. Reclaim (default method "lca"): one step below the lowest common ancestor of reclaimer and
// victim queues on the victim's side, then up; plugin default 0.
func minRuntime(pre *CycleState, queue string, reclaim bool, preemptorQueue string) time.Duration {
	if reclaim {
		v := queueChain(pre, queue)
		pset := map[string]bool{}
		for _, q := range queueChain(pre, preemptorQueue) {
			pset[q] = true
		}
		start := len(v) - 1 // top-level ancestor of the victim if there is no common ancestor
		for i, q := range v {
			if pset[q] {
				start = i - 1
				break
			}
		}
		if start < 0 {
			start = 0
		}
		for i := start; i < len(v); i++ {
			if q := pre.Queues[v[i]]; q.ReclaimMR != nil {
				return *q.ReclaimMR
			}
		}
		return 0
	}
	seen := map[string]bool{}
	for q := pre.Queues[queue]; q != nil && !seen[q.Name]; q = pre.Queues[q.Parent] {
		seen[q.Name] = true
		if reclaim && q.ReclaimMR != nil {
			return *q.ReclaimMR
		}
		if !reclaim && q.PreemptMR != nil {
			return *q.PreemptMR
		}
	}
	return 0
}

func (VictimOracle) AfterCycle(r *Run, cycle int, all []Decision) {
	pre := r.Pre
	if pre == nil {
		return
	}
	ds := okDecisions(all)
	placedBy := map[string]map[string]bool{} // action -> group placed (bind or pipeline)
	pipedPod := map[string]map[string]string{}
	for _, d := range ds {
		if d.Kind == "bind" || d.Kind == "pipeline" {
			if placedBy[d.Action] == nil {
				placedBy[d.Action] = map[string]bool{}
				pipedPod[d.Action] = map[string]string{}
			}
			placedBy[d.Action][d.Group] = true
			pipedPod[d.Action][d.Pod] = d.Node
		}
	}
	// active pods after all decisions of the cycle, replayed in order
	active := map[string]bool{}
	for n, p := range pre.Pods {
		active[n] = p.Active
	}
	nominatedNow := map[string]bool{}
	for _, d := range ds {
		switch d.Kind {
		case "bind":
			active[d.Pod] = true
			delete(nominatedNow, d.Pod)
		case "pipeline":
			if !active[d.Pod] {
				nominatedNow[d.Pod] = true
			}
		case "evict":
			active[d.Pod] = false
			delete(nominatedNow, d.Pod)
		}
	}
	evictedAt := map[string]int{}     // pod -> index of its eviction in this cycle
	evictedIn := map[string]string{} // pod -> action that evicted it
	for i, d := range ds {
		if d.Kind == "evict" {
			if _, ok := evictedAt[d.Pod]; !ok {
				evictedAt[d.Pod], evictedIn[d.Pod] = i, d.Action+"/"+d.Preemptor // one commit = one action serving one preemptor
			}
		}
	}
	for di, d := range ds {
		if d.Kind != "evict" {
			continue
		}
		switch d.EvictAction {
		case "reclaim", "preempt", "consolidation":
		default:
			continue
		}
		r.Probe("c06_evictions_judged_" + d.EvictAction)
		p := pre.Pods[d.Pod]
		if p == nil {
			continue
		}
		g := pre.Groups[p.Group]
		if g == nil {
			continue
		}
		if !g.Preemptible {
			r.Fail("C06", "nonpreemptible_victim", "cycle %d: %s evicted pod %s of non-preemptible workload %s (priority %d)", cycle, d.EvictAction, d.Pod, g.Name, g.Priority)
		}
		pg := pre.Groups[d.Preemptor]
		switch d.EvictAction {
		case "preempt":
			if pg == nil {
				r.Fail("C06", "preempt_without_preemptor", "cycle %d: preempt evicted %s with unknown preemptor %q", cycle, d.Pod, d.Preemptor)
				break
			}
			if pg.Queue != g.Queue {
				r.Fail("C06", "preempt_other_queue", "cycle %d: preempt evicted %s (queue %s) for %s (queue %s)", cycle, d.Pod, g.Queue, pg.Name, pg.Queue)
			}
			if !(g.Priority < pg.Priority) {
				r.Fail("C06", "preempt_priority", "cycle %d: preempt evicted %s (priority %d) for %s (priority %d)", cycle, d.Pod, g.Priority, pg.Name, pg.Priority)
			}
		case "reclaim":
			if pg == nil {
				r.Fail("C06", "reclaim_without_preemptor", "cycle %d: reclaim evicted %s with unknown preemptor %q", cycle, d.Pod, d.Preemptor)
				break
			}
			if pg.Queue == g.Queue {
				r.Fail("C06", "reclaim_same_queue", "cycle %d: reclaim evicted %s of queue %s for %s of the same queue", cycle, d.Pod, g.Queue, pg.Name)
			}
		}
		if d.EvictAction != "consolidation" {
			if pg != nil && !placedBy[d.Action][pg.Name] {
				r.Fail("C06", "eviction_without_placement", "cycle %d: %s evicted %s for %s, which was neither bound nor nominated by the same action", cycle, d.EvictAction, d.Pod, pg.Name)
			}
		} else {
			node, ok := pipedPod[d.Action][d.Pod]
			if !ok {
				rule, what := "consolidation_without_replacement", ""
				if !p.Active && d.Node == "" {
					// the "victim" was a pending pod that an earlier action of this cycle had only nominated
					rule, what = rule+"_of_nominated_pod", " (a pending pod that was only nominated earlier in this cycle)"
				}
				r.Fail("C06", rule, "cycle %d: consolidation evicted %s%s without re-placing it", cycle, d.Pod, what)
			} else if node == d.Node {
				r.Probe("c06_consolidation_same_node")
			}
		}
		// minimum runtime
		if d.EvictAction == "reclaim" || d.EvictAction == "preempt" {
			pq := ""
			if pg != nil {
				pq = pg.Queue
			}
			mr := minRuntime(pre, g.Queue, d.EvictAction == "reclaim", pq)
			if mr > 0 && g.LastStart != nil && pre.Now.Sub(*g.LastStart) < mr {
				// inside the protection period: only an elastic shrink down to the minimum is allowed
				set := g.Sets[p.SubGroup]
				after, deleting, nominated := 0, 0, 0
				if set != nil {
					for _, sp := range set.Pods {
						if at, ok := evictedAt[sp.Name]; active[sp.Name] || (ok && at > di && evictedIn[sp.Name] != d.Action+"/"+d.Preemptor && sp.Active) {
							// active at the end of the cycle, or still active when this action ran (a later action evicted it:
							// that eviction is judged on its own)
							after++
						} else if nominatedNow[sp.Name] && !sp.Active {
							// nominated in this cycle and not running before it. A pod that was running, was evicted
							// and re-nominated elsewhere in this cycle (moved) is a victim like any other.
							nominated++
						}
						if sp.Deleting && !podTerminated(sp.Pod) {
							deleting++
						} else if at, ok := evictedAt[sp.Name]; ok && at < di && evictedIn[sp.Name] != d.Action+"/"+d.Preemptor && sp.Active {
							// evicted earlier in this cycle by another commit: terminating by the time this scenario is validated
							deleting++
						}
					}
				}
				if set == nil || after < int(set.Min) {
					rule := "min_runtime"
					if set != nil && deleting > 0 && after+deleting >= int(set.Min) {
						rule = "min_runtime_counting_terminating"
					} else if set != nil && nominated > 0 && after+nominated+deleting >= int(set.Min) {
						// pods that were only nominated in this cycle (waiting for terminating capacity) are counted as running
						rule = "min_runtime_counting_nominated"
					}
					r.Fail("C06", rule, "cycle %d: %s evicted %s of workload %s started %s ago, inside its queue's min-runtime %s, leaving its pod set with %d < min active pods",
						cycle, d.EvictAction, d.Pod, g.Name, pre.Now.Sub(*g.LastStart), mr, after)
				} else {
					r.Probe("c06_elastic_shrink_inside_minruntime")
				}
			}
		}
	}
}

// ---------------------------------------------------------------------------------- C08

type QueueLimitOracle struct{ BaseOracle }

func (QueueLimitOracle) Prop() string { return "C08" }

type qUse struct{ gpu, cpu, mem, npGpu, npCpu, npMem float64 }

func podQueueDemand(pre *CycleState, p *RefPod, node string) (gpu, cpu, mem float64) {
	cpu = float64(p.Demand.CPUm)
	mem = float64(p.Demand.MemB)
	d := p.Demand
	switch {
	case d.Shared && d.GPUMemMi > 0:
		gm := int64(0)
		if n := pre.Nodes[node]; n != nil {
			gm, _ = nodeGPUMem(n)
		}
		if gm > 0 {
			gpu = float64(d.Devices) * float64(d.GPUMemMi) / float64(gm)
		}
	case d.Shared:
		gpu = float64(d.Devices) * d.Fraction
	default:
		gpu = float64(d.GPUs)
	}
	return
}

func (QueueLimitOracle) AfterCycle(r *Run, cycle int, all []Decision) {
	pre := r.Pre
	if pre == nil {
		return
	}
	prePods := map[string]*RefPod{}
	for k, v := range pre.Pods {
		prePods[k] = v
	}
	use := map[string]*qUse{}
	for q := range pre.Queues {
		use[q] = &qUse{}
	}
	charge := func(p *RefPod, node string, sign float64) []string {
		g := pre.Groups[p.Group]
		if g == nil {
			return nil
		}
		gpu, cpu, mem := podQueueDemand(pre, p, node)
		var chain []string
		seen := map[string]bool{}
		for q := pre.Queues[g.Queue]; q != nil && !seen[q.Name]; q = pre.Queues[q.Parent] {
			seen[q.Name] = true
			u := use[q.Name]
			u.gpu += sign * gpu
			u.cpu += sign * cpu
			u.mem += sign * mem
			if !g.Preemptible {
				u.npGpu += sign * gpu
				u.npCpu += sign * cpu
				u.npMem += sign * mem
			}
			chain = append(chain, q.Name)
		}
		return chain
	}
	names := make([]string, 0, len(prePods))
	for n := range prePods {
		names = append(names, n)
	}
	sort.Strings(names)
	for _, n := range names {
		if p := prePods[n]; p.Active {
			charge(p, p.Node, 1)
		}
	}
	start := map[string]qUse{}
	for q, u := range use {
		start[q] = *u
	}
	// a limit or quota already exceeded when the cycle starts (lowered by the user) is not blamed
	// on the scheduler: only raising the allocation above both the bound and the starting level is
	over := func(v, lim, slack, atStart float64) bool { return lim >= 0 && v > lim+slack && v > atStart+slack }
	// known-finding signature: the same pod evicted twice by the decisions of this cycle
	evictedOnce, doubleEvict := map[string]bool{}, false
	for _, d := range okDecisions(all) {
		if d.Kind == "evict" {
			if evictedOnce[d.Pod] {
				doubleEvict = true
			}
			evictedOnce[d.Pod] = true
		}
	}
	for _, d := range okDecisions(all) {
		p := prePods[d.Pod]
		if p == nil {
			continue
		}
		switch d.Kind {
		case "evict":
			if p.Active {
				charge(p, p.Node, -1)
				p = &RefPod{Name: p.Name, Group: p.Group, SubGroup: p.SubGroup, Demand: p.Demand, Pod: p.Pod}
				prePods[d.Pod] = p // no longer active for later decisions of this cycle
			}
		case "bind", "pipeline":
			g := pre.Groups[p.Group]
			if g == nil {
				continue
			}
			r.Probe("c08_decisions_charged")
			gpu, cpu, mem := podQueueDemand(pre, p, d.Node)
			for _, qn := range charge(p, d.Node, 1) {
				q, u := pre.Queues[qn], use[qn]
				// gpu-memory requests are rounded up to 1/100 GPU per device by the scheduler
				slack := 0.011*float64(max(p.Demand.Devices, 1)) + 1e-6
				sfx, sfx2 := "", ""
				if doubleEvict {
					sfx, sfx2 = "_after_double_evict", "_after_double_evict"
				} else {
					for _, gp := range g.Pods {
						if gp.Demand.Shared && gp.Demand.GPUMemMi > 0 {
							sfx = "_gpumemory_request_undercounted"
						}
					}
				}
				if gpu > 0 && over(u.gpu, q.GPU.Limit, slack, start[qn].gpu) {
					r.Fail("C08", "limit_gpu"+sfx, "cycle %d: %s of %s to %s raises queue %s GPU allocation to %.3f > limit %.3f", cycle, d.Kind, d.Pod, d.Node, qn, u.gpu, q.GPU.Limit)
				}
				if cpu > 0 && over(u.cpu, q.CPU.Limit, 1e-6, start[qn].cpu) {
					r.Fail("C08", "limit_cpu"+sfx2, "cycle %d: %s of %s raises queue %s CPU allocation to %.0fm > limit %.0fm", cycle, d.Kind, d.Pod, qn, u.cpu, q.CPU.Limit)
				}
				if mem > 0 && over(u.mem, q.Mem.Limit, 1e-6, start[qn].mem) {
					r.Fail("C08", "limit_memory"+sfx2, "cycle %d: %s of %s raises queue %s memory allocation to %.0f > limit %.0f", cycle, d.Kind, d.Pod, qn, u.mem, q.Mem.Limit)
				}
				if !g.Preemptible {
					if gpu > 0 && over(u.npGpu, q.GPU.Quota, slack, start[qn].npGpu) {
						r.Fail("C08", "nonpreemptible_quota_gpu"+sfx, "cycle %d: %s of non-preemptible %s raises queue %s non-preemptible GPU allocation to %.3f > deserved quota %.3f", cycle, d.Kind, d.Pod, qn, u.npGpu, q.GPU.Quota)
					}
					if cpu > 0 && over(u.npCpu, q.CPU.Quota, 1e-6, start[qn].npCpu) {
						r.Fail("C08", "nonpreemptible_quota_cpu"+sfx2, "cycle %d: %s of non-preemptible %s raises queue %s non-preemptible CPU allocation to %.0fm > deserved quota %.0fm", cycle, d.Kind, d.Pod, qn, u.npCpu, q.CPU.Quota)
					}
					if mem > 0 && over(u.npMem, q.Mem.Quota, 1e-6, start[qn].npMem) {
						r.Fail("C08", "nonpreemptible_quota_memory"+sfx2, "cycle %d: %s of non-preemptible %s raises queue %s non-preemptible memory allocation to %.0f > deserved quota %.0f", cycle, d.Kind, d.Pod, qn, u.npMem, q.Mem.Quota)
					}
				}
			}
			np := *p
			np.Active, np.Node = true, d.Node
			prePods[d.Pod] = &np
		}
	}
}

// ---------------------------------------------------------------------------------- C16

type OrderOracle struct{ BaseOracle }

func (OrderOracle) Prop() string { return "C16" }

func podTemplate(p *RefPod) string {
	d := p.Demand
	ext := make([]string, 0, len(d.Ext))
	for k, v := range d.Ext {
		ext = append(ext, fmt.Sprintf("%s=%d", k, v))
	}
	sort.Strings(ext)
	sp := p.Pod.Spec
	return fmt.Sprintf("cpu=%d mem=%d gpu=%d frac=%v gmem=%d dev=%d ext=%v sel=%v aff=%v tol=%v sg=%s", d.CPUm, d.MemB, d.GPUs, d.Fraction, d.GPUMemMi, d.Devices, ext,
		sp.NodeSelector, sp.Affinity, sp.Tolerations, p.SubGroup)
}

func groupTemplate(g *RefGroup) string {
	var parts []string
	for _, p := range g.Pods {
		parts = append(parts, podTemplate(p))
	}
	sort.Strings(parts)
	var sets []string
	for _, s := range sortedKeys(g.Sets) {
		sets = append(sets, fmt.Sprintf("%s:%d", s, g.Sets[s].Min))
	}
	return fmt.Sprintf("q=%s preempt=%v min=%d sets=%v pods=%s", g.Queue, g.Preemptible, g.MinMember, sets, strings.Join(parts, "|"))
}

func (OrderOracle) AfterCycle(r *Run, cycle int, all []Decision) {
	pre := r.Pre
	if pre == nil {
		return
	}
	placed := map[string]bool{}
	firstAt := map[string]int{} // group -> index of its first allocate placement among the allocate placements
	var order []string
	for _, d := range okDecisions(all) {
		if d.Action == "allocate" && (d.Kind == "bind" || d.Kind == "pipeline") {
			if !placed[d.Group] {
				firstAt[d.Group] = len(order)
				order = append(order, d.Group)
			}
			placed[d.Group] = true
		}
	}
	// candidates: fully pending and ready workloads
	byTemplate := map[string][]*RefGroup{}
	partialOlder := map[string]bool{} // partially running workloads below a minimum: comparable only as the one that goes first
	for _, gn := range sortedKeys(pre.Groups) {
		g := pre.Groups[gn]
		if len(g.Pods) == 0 {
			continue
		}
		ready, partial := true, false
		for _, p := range g.Pods {
			if !p.Pending {
				ready = false
			}
		}
		for _, s := range g.Sets {
			if len(s.Pods) < int(s.Min) {
				ready = false
			}
		}
		if !ready {
			// a workload whose pods are all either running or pending, with a pod set below its minimum: it needs its
			// pending pods at least as urgently as an identical, fully pending workload needs all of its pods. It only
			// takes the "must go first" role of a pair.
			ok, pend, below := true, 0, false
			for _, p := range g.Pods {
				switch {
				case p.Pending:
					pend++
				case p.Active && !p.Deleting:
				default:
					ok = false
				}
			}
			for _, s := range g.Sets {
				act := 0
				for _, sp := range s.Pods {
					if sp.Active && !sp.Deleting {
						act++
					}
				}
				if act < int(s.Min) {
					below = true
				}
				if len(s.Pods) < int(s.Min) {
					ok = false
				}
			}
			if !(ok && pend > 0 && below) {
				continue
			}
			partial = true
		}
		t := groupTemplate(g)
		if partial {
			partialOlder[g.Name] = true
		}
		byTemplate[t] = append(byTemplate[t], g)
	}
	for _, t := range sortedKeys(byTemplate) {
		gs := byTemplate[t]
		for i := 0; i < len(gs); i++ {
			for j := 0; j < len(gs); j++ {
				a, b := gs[i], gs[j] // a should go before b
				first := a.Priority > b.Priority || (a.Priority == b.Priority && a.Created.Before(b.Created))
				if !first || partialOlder[b.Name] {
					continue
				}
				if partialOlder[a.Name] {
					if a.Priority != b.Priority {
						continue
					}
					r.Probe("c16_comparable_pairs_older_partially_running")
				}
				r.Probe("c16_comparable_pairs")
				if placed[b.Name] && !placed[a.Name] {
					rule := "order"
					if firstAt[b.Name] > 0 {
						// some other workload was placed between the (failed) attempt for a and the attempt for b: the
						// cluster b was tried on is not the cluster a was tried on (greedy per-task node choice)
						rule = "order_after_intervening_placement"
					}
					r.Fail("C16", rule, "cycle %d: allocate placed %s (priority %d, created %s) but not the identical %s (priority %d, created %s) of queue %s",
						cycle, b.Name, b.Priority, b.Created.Format(time.RFC3339), a.Name, a.Priority, a.Created.Format(time.RFC3339), a.Queue)
				}
			}
		}
	}
}

var _ = math.Abs

// ---------------------------------------------------------------------------------- C10

// RobustnessOracle: panics are reported by the run loop; this oracle checks the second clause:
// a healthy witness workload (own queue, own node) is still scheduled.
type RobustnessOracle struct{ BaseOracle }

func (RobustnessOracle) Prop() string { return "C10" }

func (RobustnessOracle) Finish(r *Run) {
	hasWitness := false
	for _, w := range r.S.World.Workloads {
		if w.Name == "ww" {
			hasWitness = true
		}
	}
	if !hasWitness || r.cycle < 2 || r.Sched.Panic != "" {
		return
	}
	r.Probe("c10_witness_judged")
	for _, d := range r.Sched.Obs.Decisions {
		if d.Pod == "ww-p0" && d.Kind == "bind" && d.Err == "" {
			return
		}
	}
	why := ""
	if p := r.API.Pod(NS, "ww-p0"); p != nil {
		for _, c := range p.Status.Conditions {
			why += fmt.Sprintf(" [pod condition %s=%s %s: %s]", c.Type, c.Status, c.Reason, c.Message)
		}
	}
	for _, g := range r.API.PodGroups() {
		if g.Name == "ww" {
			for _, c := range g.Status.SchedulingConditions {
				why += fmt.Sprintf(" [pod group condition %s: %s]", c.Type, c.Message)
			}
		}
	}
	r.Fail("C10", "healthy_workload_not_scheduled", "after %d cycles the healthy witness workload ww (own queue qw, own node nw) was never bound;%s", r.cycle, why)
}

// ---------------------------------------------------------------------------------- C15

// LivelockOracle: closed system; canonical cluster state after every round; a state seen before
// with evictions in between is a lasso.
type LivelockOracle struct {
	BaseOracle
	seen      map[string]int // state -> round index
	evictions []int          // cumulative evictions after round i
	round     int
	total     int
	other     int   // evictions of pods that were NOT bound earlier in the same cycle
	others    []int // cumulative, per round
	ds        []Decision
	dsAt      []int // len(ds) after round i
	prevNom   map[string]string // pod -> node it was nominated on by reclaim/preempt in the previous cycle
	slotLost  map[string]bool   // nominated pods that the following cycle could not bind for lack of pod slots only
}

func (o *LivelockOracle) Prop() string { return "C15" }

func (o *LivelockOracle) AfterCycle(r *Run, cycle int, all []Decision) {
	boundNow := map[string]bool{}
	o.ds = append(o.ds, okDecisions(all)...)
	if o.slotLost == nil {
		o.slotLost = map[string]bool{}
	}
	{
		boundThis := map[string]bool{}
		for _, d := range okDecisions(all) {
			if d.Kind == "bind" {
				boundThis[d.Pod] = true
			}
		}
		occ := Occupancy(r.API)
		for pod, node := range o.prevNom {
			o2, p := occ[node], r.API.Pod(NS, pod)
			if boundThis[pod] || o2 == nil || p == nil {
				continue
			}
			dm := PodDemand(p)
			al := o2.Node.Status.Allocatable
			gpus := int64(0)
			if q, ok := al[GPUResource]; ok {
				gpus = q.Value()
			}
			if !dm.Shared && al.Cpu().MilliValue()-o2.CPUm >= dm.CPUm && al.Memory().Value()-o2.MemB >= dm.MemB &&
				gpus-o2.GPUs-int64(len(o2.Groups)) >= dm.GPUs && al.Pods().Value()-o2.Pods < 1 {
				o.slotLost[pod] = true
			}
		}
		o.prevNom = map[string]string{}
		for _, d := range okDecisions(all) {
			if d.Kind == "pipeline" && (d.Action == "reclaim" || d.Action == "preempt") {
				o.prevNom[d.Pod] = d.Node
			}
		}
	}
	for _, d := range okDecisions(all) {
		if d.Kind == "bind" || d.Kind == "pipeline" { // placed (bound or merely nominated) earlier in this very cycle
			boundNow[d.Pod] = true
		}
		if d.Kind == "evict" {
			o.total++
			if !boundNow[d.Pod] && d.EvictAction != "consolidation" {
				o.other++
			}
		}
	}
}

func (o *LivelockOracle) AfterOp(r *Run, op Op) {
	if op.Kind != "recreate" {
		return
	}
	if o.seen == nil {
		o.seen = map[string]int{}
	}
	var parts []string
	for _, p := range r.API.Pods() {
		if IsReservationPod(p) {
			continue
		}
		st := "pending"
		switch {
		case p.DeletionTimestamp != nil:
			st = "terminating"
		case podTerminated(p):
			st = "terminated"
		case p.Spec.NodeName != "":
			st = "placed"
		}
		parts = append(parts, fmt.Sprintf("%s:%s:%s:%v", p.Name, st, p.Spec.NodeName, PodGroups(p)))
	}
	for _, br := range r.API.BindRequests() {
		if br.Status.Phase != "Succeeded" {
			parts = append(parts, fmt.Sprintf("br:%s:%s:%s", br.Name, br.Spec.SelectedNode, br.Status.Phase))
		}
	}
	state := strings.Join(parts, "|")
	o.evictions = append(o.evictions, o.total)
	o.others = append(o.others, o.other)
	o.dsAt = append(o.dsAt, len(o.ds))
	if prev, ok := o.seen[hashStrings([]string{state})]; ok {
		if ev := o.total - o.evictions[prev]; ev > 0 {
			rule := "lasso"
			if o.other-o.others[prev] == 0 {
				rule = "lasso_moves_or_same_cycle_binds"
				if os.Getenv("KAISIM_C15_TAG") != "" {
					acts := map[string]bool{}
					for _, d := range o.ds[o.dsAt[prev]:] {
						if d.Kind == "evict" {
							acts[d.EvictAction] = true
						}
					}
					rule += "_" + strings.Join(sortedKeys(acts), "+") + fmt.Sprintf("_cr%v", r.S.Config.ConsolidatingReclaim)
				}
			} else {
				// signature: a pod is nominated by reclaim/preempt, never gets bound, and the allocate action of a later
				// cycle binds pods of the very workloads that were evicted for it (the freed capacity goes back)
				win := o.ds[o.dsAt[prev]:]
				nominated, bound, victimGroups, regained, regainedWhole := map[string]bool{}, map[string]bool{}, map[string]bool{}, false, false
				for _, d := range win { // the window is one period of a cycle: order inside it does not matter
					if d.Kind == "evict" && (d.EvictAction == "reclaim" || d.EvictAction == "preempt") {
						victimGroups[d.Group] = true
					}
				}
				for _, d := range win {
					switch {
					case d.Kind == "pipeline" && (d.Action == "reclaim" || d.Action == "preempt"):
						nominated[d.Pod] = true
					case d.Kind == "bind":
						bound[d.Pod] = true
						if d.Action == "allocate" && victimGroups[d.Group] {
							regained = true
							if len(d.GPUGroups) == 0 {
								regainedWhole = true
							}
						}
					}
				}
				// ... and what keeps the nominated pod off its node afterwards is the node's pod-slot count alone (the slot
				// of a GPU reservation pod is not accounted for, see C01 podslots_reservation): cpu, memory and GPUs fit
				lostToSlots := false
				for pod := range nominated {
					if !bound[pod] && o.slotLost[pod] {
						lostToSlots = true
					}
				}
				lost := false
				for pod := range nominated {
					if !bound[pod] {
						lost = true
					}
				}
				_ = lostToSlots
				onlyPreempt := true
				for _, d := range win {
					if d.Kind == "evict" && d.EvictAction != "preempt" && d.EvictAction != "consolidation" {
						onlyPreempt = false
					}
				}
				if lost && regained && onlyPreempt {
					// preempt inside one queue: allocate cannot place the high-priority workload without victims, places the
					// recreated lower-priority workloads instead, and preempt evicts them again for a nomination that is not kept
					rule = "lasso_nomination_lost_preempt_same_queue"
				} else if lost && regained && !regainedWhole {
					// every pod of the evicted workloads that allocate binds again is a fractional / gpu-memory pod opening
					// GPU groups (and their reservation pods) on the node the reclaimer was nominated on
					rule = "lasso_nomination_lost_to_fractional_victims"
				} else if lost && regained {
					// the general shape of the two classes above: reclaim/preempt evicts workload V to nominate X, X's nomination
					// does not hold the capacity across cycles, allocate binds V's recreated pods (whole-GPU and fractional ones)
					// first, X does not fit again and V is evicted again
					rule = "lasso_nomination_lost_victims_rebound"
				}
			}
			r.Fail("C15", rule, "closed system: the cluster state after round %d equals the state after round %d although %d evictions happened in between (eviction livelock)", o.round, prev, ev)
		}
	} else {
		o.seen[hashStrings([]string{state})] = o.round
	}
	o.round++
}

func (o *LivelockOracle) Finish(r *Run) {
	n := len(o.evictions)
	if n >= 6 && o.evictions[n-1] > o.evictions[n-4] {
		r.Probe("c15_still_evicting_at_bound")
	}
	if o.total > 0 {
		r.Probe("c15_runs_with_evictions")
	}
}
