package kaisim

import (
	"fmt"

	"pgregory.net/rapid"
)

// GenPressureScript: a directed ("swarm") profile. Small GPU cluster filled to within a few devices
// by single-pod fillers, a share of which are terminating; multi-pod-set gangs whose pod sets are partly
// running with elastic surplus and partly pending again. Whole-GPU pods only, one permissive queue tree,
// so that what decides the outcome is exactly the idle / releasing split the gang must be placed on.
func GenPressureScript(t *rapid.T, prop, profile string, o GenOpts) *Script {
	s := &Script{Prop: prop, Profile: profile}
	s.MapSeed = rapid.Uint64Range(1, 1<<62).Draw(t, "mapseed")
	s.Config = genConfig(t, o)
	nn := rapid.IntRange(1, 2).Draw(t, "pnodes")
	free := map[string]int64{}
	for i := 0; i < nn; i++ {
		g := int64(pick(t, "pgpus", 2, 3, 4, 6))
		s.World.Nodes = append(s.World.Nodes, NodeSpec{Name: fmt.Sprintf("n%d", i), CPUm: 64000, MemMi: 262144, Pods: 110, GPUs: g})
		free[fmt.Sprintf("n%d", i)] = g
	}
	var leaves []string
	if o.Hierarchy >= 2 && chance(t, "pdepartments", 50) {
		// two departments with GPU quotas, 1-2 leaf queues each: reclaim across departments is judged at department level
		var total int64
		for _, v := range free {
			total += v
		}
		for d := 0; d < 2; d++ {
			dq := QueueSpec{Name: fmt.Sprintf("d%d", d), GPU: QRes{Quota: float64(rapid.IntRange(0, int(total)).Draw(t, "pdquota")), Limit: -1, Weight: pick(t, "pdw", 0.0, 1.0, 2.0)},
				CPU: QRes{Quota: -1, Limit: -1, Weight: 1}, Mem: QRes{Quota: -1, Limit: -1, Weight: 1}}
			s.World.Queues = append(s.World.Queues, dq)
			for l := 0; l < rapid.IntRange(1, 2).Draw(t, "pdleaves"); l++ {
				q := QueueSpec{Name: fmt.Sprintf("d%dq%d", d, l), Parent: dq.Name, GPU: QRes{Quota: float64(rapid.IntRange(0, int(total)/2).Draw(t, "plquota")), Limit: -1, Weight: pick(t, "plw", 0.0, 1.0, 2.0)},
					CPU: QRes{Quota: -1, Limit: -1, Weight: 1}, Mem: QRes{Quota: -1, Limit: -1, Weight: 1}}
				s.World.Queues = append(s.World.Queues, q)
				leaves = append(leaves, q.Name)
			}
		}
	} else {
		nq := rapid.IntRange(1, 2).Draw(t, "pqueues")
		for i := 0; i < nq; i++ {
			q := QueueSpec{Name: fmt.Sprintf("q%d", i), GPU: QRes{Quota: pick(t, "pquota", -1.0, -1.0, 2.0, 0.0), Limit: -1, Weight: 1},
				CPU: QRes{Quota: -1, Limit: -1, Weight: 1}, Mem: QRes{Quota: -1, Limit: -1, Weight: 1}}
			s.World.Queues = append(s.World.Queues, q)
			leaves = append(leaves, q.Name)
		}
	}
	if o.Limits {
		for i := range s.World.Queues {
			if chance(t, "plimit", 35) {
				s.World.Queues[i].GPU.Limit = float64(rapid.IntRange(1, 4).Draw(t, "plimitv"))
			}
		}
	}
	s.World.PriorityClasses = []PriorityClassSpec{{Name: "train", Value: 50}, {Name: "build", Value: 100}, {Name: "inference", Value: 125}, {Name: "low", Value: 25}}
	place := func(p *PodSpec) bool {
		start := rapid.IntRange(0, nn-1).Draw(t, "pstart")
		for k := 0; k < nn; k++ {
			n := fmt.Sprintf("n%d", (start+k)%nn)
			if free[n] >= p.GPUs {
				free[n] -= p.GPUs
				p.State, p.Node = "running", n
				return true
			}
		}
		return false
	}
	ng := rapid.IntRange(1, 2).Draw(t, "pgangs")
	for i := 0; i < ng; i++ {
		w := WorkloadSpec{Name: fmt.Sprintf("w%d", i), Queue: pick(t, "wq", leaves...), AgeSec: int64(rapid.IntRange(1, 5000).Draw(t, "age"))}
		if chance(t, "haspc", 50) {
			w.PriorityClass = pick(t, "pc", "train", "build", "inference", "low")
		}
		nsg := rapid.IntRange(1, 3).Draw(t, "pnsg")
		total := int32(0)
		running := false
		for k := 0; k < nsg; k++ {
			cnt := rapid.IntRange(1, 3).Draw(t, "sgcount")
			mm := int32(rapid.IntRange(1, cnt).Draw(t, "sgmin"))
			name := fmt.Sprintf("sg%d", k)
			if nsg > 1 {
				w.SubGroups = append(w.SubGroups, SubGroupSpec{Name: name, MinMember: mm})
			}
			total += mm
			up := chance(t, "sgup", 50)
			nrun := 0
			if up {
				nrun = rapid.IntRange(int(mm), cnt).Draw(t, "sgrunning")
			}
			for j := 0; j < cnt; j++ {
				p := PodSpec{Name: fmt.Sprintf("w%d-s%d-p%d", i, k, j), CPUm: 100, MemMi: 128, GPUs: 1, State: "pending"}
				if nsg > 1 {
					p.SubGroup = name
				}
				if j < nrun && place(&p) {
					running = true
				}
				w.Pods = append(w.Pods, p)
			}
		}
		w.MinMember = total
		// a pod set that did not fit completely is not up: keep the initial state gang-consistent
		for k := 0; k < nsg; k++ {
			name := ""
			mm := total
			if nsg > 1 {
				name, mm = w.SubGroups[k].Name, w.SubGroups[k].MinMember
			}
			act := 0
			for _, p := range w.Pods {
				if p.SubGroup == name && p.State == "running" {
					act++
				}
			}
			if act > 0 && act < int(mm) {
				for j := range w.Pods {
					if w.Pods[j].SubGroup == name && w.Pods[j].State == "running" {
						free[w.Pods[j].Node]++
						w.Pods[j].State, w.Pods[j].Node = "pending", ""
					}
				}
			}
		}
		if running {
			ago := int64(rapid.IntRange(0, 10000).Draw(t, "laststart"))
			w.LastStartAgo = &ago
		}
		s.World.Workloads = append(s.World.Workloads, w)
	}
	// fillers: leave 0..2 devices idle in the whole cluster; many fillers are on their way out
	leave := int64(rapid.IntRange(0, 2).Draw(t, "pleave"))
	fi := 0
	for {
		var sum int64
		for _, v := range free {
			sum += v
		}
		if sum <= leave || fi > 16 {
			break
		}
		w := WorkloadSpec{Name: fmt.Sprintf("f%d", fi), Queue: pick(t, "fq", leaves...), MinMember: 1, AgeSec: int64(rapid.IntRange(1, 5000).Draw(t, "fage"))}
		if chance(t, "fpc", 50) {
			w.PriorityClass = pick(t, "fpcv", "train", "low", "build")
		}
		p := PodSpec{Name: fmt.Sprintf("f%d-p0", fi), CPUm: 100, MemMi: 128, GPUs: 1, State: "pending"}
		if !place(&p) {
			break
		}
		if chance(t, "fterm", 45) {
			p.State = "terminating"
		}
		w.Pods = []PodSpec{p}
		ago := int64(rapid.IntRange(0, 10000).Draw(t, "flaststart"))
		w.LastStartAgo = &ago
		s.World.Workloads = append(s.World.Workloads, w)
		fi++
	}
	// a few small pending workloads competing for whatever is left
	np := rapid.IntRange(0, 2).Draw(t, "ppending")
	for i := 0; i < np; i++ {
		w := WorkloadSpec{Name: fmt.Sprintf("p%d", i), Queue: pick(t, "pq", leaves...), MinMember: 1, AgeSec: int64(rapid.IntRange(1, 5000).Draw(t, "page"))}
		if chance(t, "ppc", 50) {
			w.PriorityClass = pick(t, "ppcv", "train", "low", "build", "inference")
		}
		w.Pods = []PodSpec{{Name: fmt.Sprintf("p%d-p0", i), CPUm: 100, MemMi: 128, GPUs: int64(rapid.IntRange(1, 2).Draw(t, "pgpu")), State: "pending"}}
		s.World.Workloads = append(s.World.Workloads, w)
	}
	s.Ops = genOps(t, o, &s.World)
	s.Faults, s.BindFail = genFaults(t, o, &s.World)
	return s
}

// GenDepartmentReclaimScript (C07): a full cluster; a victim department whose two leaf queues run
// single-GPU preemptible workloads a little above the department's deserved quota; a reclaimer
// department with room in its quota and a pending gang that needs more than the victim department's
// excess. Whatever is taken must stop at the department's quota, across its leaf queues.
func GenDepartmentReclaimScript(t *rapid.T, prop string, o GenOpts) *Script {
	s := &Script{Prop: prop, Profile: "reclaim-departments"}
	s.MapSeed = rapid.Uint64Range(1, 1<<62).Draw(t, "mapseed")
	s.Config = genConfig(t, o)
	nn := rapid.IntRange(1, 2).Draw(t, "dnodes")
	g := int64(pick(t, "dgpus", 4, 6, 8))
	total := int(g) * nn
	for i := 0; i < nn; i++ {
		s.World.Nodes = append(s.World.Nodes, NodeSpec{Name: fmt.Sprintf("n%d", i), CPUm: 64000, MemMi: 262144, Pods: 110, GPUs: g})
	}
	unl := QRes{Quota: -1, Limit: -1, Weight: 1}
	victims := rapid.IntRange(3, total).Draw(t, "dvictims") // GPUs held by the victim department
	excess := rapid.IntRange(0, min(3, victims)).Draw(t, "dexcess")
	own := total - victims // GPUs held by the reclaimer's department
	need := rapid.IntRange(1, min(4, victims)).Draw(t, "dneed")
	s.World.Queues = []QueueSpec{
		{Name: "dv", GPU: QRes{Quota: float64(victims - excess), Limit: -1, Weight: pick(t, "dvw", 0.0, 1.0)}, CPU: unl, Mem: unl},
		{Name: "dvq0", Parent: "dv", GPU: QRes{Quota: float64(rapid.IntRange(0, victims).Draw(t, "dvq0")), Limit: -1, Weight: pick(t, "dvq0w", 0.0, 1.0)}, CPU: unl, Mem: unl},
		{Name: "dvq1", Parent: "dv", GPU: QRes{Quota: float64(rapid.IntRange(0, victims).Draw(t, "dvq1")), Limit: -1, Weight: pick(t, "dvq1w", 0.0, 1.0)}, CPU: unl, Mem: unl},
		{Name: "dr", GPU: QRes{Quota: float64(own + rapid.IntRange(0, need+1).Draw(t, "drroom")), Limit: -1, Weight: pick(t, "drw", 0.0, 1.0)}, CPU: unl, Mem: unl},
		{Name: "drq0", Parent: "dr", GPU: QRes{Quota: float64(rapid.IntRange(0, total).Draw(t, "drq0")), Limit: -1, Weight: 1}, CPU: unl, Mem: unl},
	}
	s.World.PriorityClasses = []PriorityClassSpec{{Name: "train", Value: 50}, {Name: "build", Value: 100}, {Name: "inference", Value: 125}, {Name: "low", Value: 25}}
	k := 0
	slot := func() string { n := fmt.Sprintf("n%d", k/int(g)); k++; return n }
	for i := 0; i < victims; i++ {
		w := WorkloadSpec{Name: fmt.Sprintf("v%d", i), Queue: pick(t, "vq", "dvq0", "dvq1"), MinMember: 1, PriorityClass: pick(t, "vpc", "train", "low"), AgeSec: int64(rapid.IntRange(1, 5000).Draw(t, "vage"))}
		ago := int64(rapid.IntRange(100, 10000).Draw(t, "vls"))
		w.LastStartAgo = &ago
		w.Pods = []PodSpec{{Name: fmt.Sprintf("v%d-p0", i), CPUm: 100, MemMi: 128, GPUs: 1, State: "running", Node: slot()}}
		s.World.Workloads = append(s.World.Workloads, w)
	}
	for i := 0; i < own; i++ {
		w := WorkloadSpec{Name: fmt.Sprintf("o%d", i), Queue: "drq0", MinMember: 1, PriorityClass: pick(t, "opc", "train", "low", "build"), AgeSec: int64(rapid.IntRange(1, 5000).Draw(t, "oage"))}
		ago := int64(rapid.IntRange(100, 10000).Draw(t, "ols"))
		w.LastStartAgo = &ago
		w.Pods = []PodSpec{{Name: fmt.Sprintf("o%d-p0", i), CPUm: 100, MemMi: 128, GPUs: 1, State: "running", Node: slot()}}
		s.World.Workloads = append(s.World.Workloads, w)
	}
	rw := WorkloadSpec{Name: "r0", Queue: "drq0", MinMember: int32(need), PriorityClass: pick(t, "rpc", "train", "build", "low"), AgeSec: int64(rapid.IntRange(1, 5000).Draw(t, "rage"))}
	for j := 0; j < need; j++ {
		rw.Pods = append(rw.Pods, PodSpec{Name: fmt.Sprintf("r0-p%d", j), CPUm: 100, MemMi: 128, GPUs: 1, State: "pending"})
	}
	s.World.Workloads = append(s.World.Workloads, rw)
	// further pending jobs of the reclaiming queue: a cycle then solves several reclaimers of one queue back to back,
	// each of which must be judged on the queue allocations the previous one left behind
	for i := 1; i <= pick(t, "dmore", 0, 0, 1, 2); i++ {
		xw := WorkloadSpec{Name: fmt.Sprintf("r%d", i), Queue: "drq0", MinMember: 1, PriorityClass: rw.PriorityClass, AgeSec: int64(rapid.IntRange(1, 5000).Draw(t, "rage"))}
		xw.Pods = []PodSpec{{Name: fmt.Sprintf("r%d-p0", i), CPUm: 100, MemMi: 128, GPUs: 1, State: "pending"}}
		s.World.Workloads = append(s.World.Workloads, xw)
	}
	s.Ops = genOps(t, o, &s.World)
	return s
}

// GenSharedGPUScript: a directed profile for C02. One or two nodes whose GPUs are mostly shared already: every GPU
// group has 1-3 sharers (fractions or gpu-memory), a share of them terminating, so that most groups have room only once
// a terminating sharer is gone while a few have genuinely idle room; pending work is dominated by multi-device
// fractional / gpu-memory pods that must pick several devices on one node, plus single-device and whole-GPU pods.
func GenSharedGPUScript(t *rapid.T, prop string, o GenOpts) *Script {
	s := &Script{Prop: prop, Profile: "shared-gpu-pressure"}
	s.MapSeed = rapid.Uint64Range(1, 1<<62).Draw(t, "mapseed")
	s.Config = genConfig(t, o)
	byMem := chance(t, "sgmem", 35) // requests by gpu-memory instead of fraction
	const devMem = 10000
	nn := rapid.IntRange(1, 2).Draw(t, "sgnodes")
	for i := 0; i < nn; i++ {
		s.World.Nodes = append(s.World.Nodes, NodeSpec{Name: fmt.Sprintf("n%d", i), CPUm: 64000, MemMi: 262144, Pods: int64(pick(t, "sgpods", 110, 110, 12)),
			GPUs: int64(pick(t, "sggpus", 2, 3, 4)), GPUMemMi: devMem})
	}
	nq := rapid.IntRange(1, 2).Draw(t, "sgqueues")
	var leaves []string
	for i := 0; i < nq; i++ {
		q := QueueSpec{Name: fmt.Sprintf("q%d", i), GPU: QRes{Quota: pick(t, "sgquota", -1.0, -1.0, 1.0, 0.0), Limit: -1, Weight: 1},
			CPU: QRes{Quota: -1, Limit: -1, Weight: 1}, Mem: QRes{Quota: -1, Limit: -1, Weight: 1}}
		s.World.Queues = append(s.World.Queues, q)
		leaves = append(leaves, q.Name)
	}
	s.World.PriorityClasses = []PriorityClassSpec{{Name: "train", Value: 50}, {Name: "build", Value: 100}, {Name: "inference", Value: 125}, {Name: "low", Value: 25}}
	units := []int{25, 30, 50, 50, 70} // hundredths of a device
	shape := func(p *PodSpec, u int) {
		if byMem {
			p.GPUMemMi = int64(u * devMem / 100)
		} else {
			p.Fraction = fmt.Sprintf("%.2f", float64(u)/100)
		}
	}
	wi := 0
	for _, n := range s.World.Nodes {
		whole := 0
		if chance(t, "sgwhole", 35) {
			whole = 1
			w := WorkloadSpec{Name: fmt.Sprintf("w%d", wi), Queue: pick(t, "wq", leaves...), MinMember: 1, AgeSec: 9000, PriorityClass: "train"}
			w.Pods = []PodSpec{{Name: w.Name + "-p0", CPUm: 100, MemMi: 128, GPUs: 1, State: pick(t, "sgwstate", "running", "running", "terminating"), Node: n.Name}}
			s.World.Workloads = append(s.World.Workloads, w)
			wi++
		}
		idleGPUs := rapid.IntRange(0, 1).Draw(t, "sgidle")
		for g := 0; g < int(n.GPUs)-whole-idleGPUs; g++ {
			group := fmt.Sprintf("%s-g%d", n.Name, g)
			used := 0
			for k, ns := 0, rapid.IntRange(1, 3).Draw(t, "sgsharers"); k < ns; k++ {
				u := pick(t, "sgunit", units...)
				if used+u > 100 {
					continue
				}
				used += u
				w := WorkloadSpec{Name: fmt.Sprintf("w%d", wi), Queue: pick(t, "wq", leaves...), MinMember: 1, AgeSec: int64(8000 - wi), PriorityClass: pick(t, "pc", "train", "train", "build", "low")}
				p := PodSpec{Name: w.Name + "-p0", CPUm: 100, MemMi: 128, State: "running", Node: n.Name, GPUGroups: []string{group}}
				shape(&p, u)
				if chance(t, "sgterm", 40) {
					p.State = "terminating"
				}
				w.Pods = []PodSpec{p}
				s.World.Workloads = append(s.World.Workloads, w)
				wi++
			}
		}
	}
	for i, np := 0, rapid.IntRange(1, 4).Draw(t, "sgpending"); i < np; i++ {
		w := WorkloadSpec{Name: fmt.Sprintf("w%d", wi), Queue: pick(t, "wq", leaves...), MinMember: 1, AgeSec: int64(rapid.IntRange(1, 5000).Draw(t, "age")), PriorityClass: pick(t, "pc", "train", "build", "inference", "low")}
		p := PodSpec{Name: w.Name + "-p0", CPUm: 100, MemMi: 128, State: "pending"}
		switch pick(t, "sgkind", "multi", "multi", "multi", "single", "whole") {
		case "multi":
			shape(&p, pick(t, "sgunit", units...))
			p.NumDevices = int64(rapid.IntRange(2, 3).Draw(t, "sgndev"))
		case "single":
			shape(&p, pick(t, "sgunit", units...))
		case "whole":
			p.GPUs = 1
		}
		w.Pods = []PodSpec{p}
		s.World.Workloads = append(s.World.Workloads, w)
		wi++
	}
	s.Ops = genOps(t, o, &s.World)
	if o.Faults {
		s.Faults, s.BindFail = genFaults(t, o, &s.World)
	}
	return s
}

// GenProtectedElasticScript: a directed profile for C06. An elastic workload running exactly at its minimum (its surplus
// pods are pending: the queue is at its GPU limit), one pod per node so that every node keeps a little idle capacity
// (fragmentation), still inside or just outside its queue's min-runtime; a reclaimer of a starved queue and/or a
// higher-priority preemptor of the same queue need more GPUs on one node than any node has idle, so that the only
// scenarios are the ones that evict or move core pods of the protected workload.
func GenProtectedElasticScript(t *rapid.T, prop string, o GenOpts) *Script {
	s := &Script{Prop: prop, Profile: "protected-elastic-fragmented"}
	s.MapSeed = rapid.Uint64Range(1, 1<<62).Draw(t, "mapseed")
	s.Config = genConfig(t, o)
	s.Config.Actions = []string{"allocate", "consolidation", "reclaim", "preempt", "stalegangeviction"}
	s.Config.ConsolidatingReclaim = chance(t, "pecons", 80)
	nn := rapid.IntRange(2, 3).Draw(t, "penodes")
	g := int64(pick(t, "pegpus", 2, 2, 3, 4))
	for i := 0; i < nn; i++ {
		s.World.Nodes = append(s.World.Nodes, NodeSpec{Name: fmt.Sprintf("n%d", i), CPUm: 64000, MemMi: 262144, Pods: 110, GPUs: g})
	}
	min := int32(rapid.IntRange(1, nn).Draw(t, "pemin"))
	mr := pick(t, "pemr", "10m", "10m", "2h", "30s")
	qa := QueueSpec{Name: "qa", GPU: QRes{Quota: float64(rapid.IntRange(0, int(min)).Draw(t, "peqaquota")), Limit: float64(min), Weight: 1},
		CPU: QRes{Quota: -1, Limit: -1, Weight: 1}, Mem: QRes{Quota: -1, Limit: -1, Weight: 1}, ReclaimMinRuntime: mr, PreemptMinRuntime: mr}
	if chance(t, "penolimit", 25) {
		qa.GPU.Limit = -1
	}
	qb := QueueSpec{Name: "qb", GPU: QRes{Quota: float64(nn) * float64(g), Limit: -1, Weight: 1},
		CPU: QRes{Quota: -1, Limit: -1, Weight: 1}, Mem: QRes{Quota: -1, Limit: -1, Weight: 1}}
	s.World.Queues = []QueueSpec{qa, qb}
	s.World.PriorityClasses = []PriorityClassSpec{{Name: "train", Value: 50}, {Name: "build", Value: 100}, {Name: "inference", Value: 125}, {Name: "low", Value: 25}}
	// the protected elastic workload
	e := WorkloadSpec{Name: "e0", Queue: "qa", MinMember: min, AgeSec: 9000, PriorityClass: pick(t, "pepc", "train", "low")}
	ago := int64(pick(t, "pestart", 60, 60, 20, 3600, 100000))
	e.LastStartAgo = &ago
	surplus := rapid.IntRange(1, 2).Draw(t, "pesurplus")
	for i := 0; i < int(min)+surplus; i++ {
		p := PodSpec{Name: fmt.Sprintf("e0-p%d", i), CPUm: 100, MemMi: 128, GPUs: 1, State: "pending"}
		if i < int(min) {
			p.State, p.Node = "running", fmt.Sprintf("n%d", i%nn)
		}
		e.Pods = append(e.Pods, p)
	}
	if chance(t, "peabove", 20) && len(e.Pods) > int(min) { // sometimes one surplus pod runs too (a legal elastic shrink exists)
		e.Pods[min].State, e.Pods[min].Node = "running", fmt.Sprintf("n%d", int(min)%nn)
	}
	s.World.Workloads = append(s.World.Workloads, e)
	// fillers of the starved queue's competitor so that nodes keep exactly a little idle room
	used := map[string]int64{}
	for _, p := range e.Pods {
		if p.Node != "" {
			used[p.Node]++
		}
	}
	fi := 0
	for i := 0; i < nn; i++ {
		n := fmt.Sprintf("n%d", i)
		idle := int64(rapid.IntRange(0, int(g-used[n])).Draw(t, "peidle"))
		for used[n]+idle < g {
			w := WorkloadSpec{Name: fmt.Sprintf("f%d", fi), Queue: "qb", MinMember: 1, AgeSec: int64(8000 - fi), PriorityClass: pick(t, "pefpc", "build", "train")}
			w.Pods = []PodSpec{{Name: w.Name + "-p0", CPUm: 100, MemMi: 128, GPUs: 1, State: "running", Node: n}}
			s.World.Workloads = append(s.World.Workloads, w)
			used[n]++
			fi++
		}
	}
	// the workloads that want capacity
	if chance(t, "pereclaimer", 75) {
		w := WorkloadSpec{Name: "r0", Queue: "qb", MinMember: 1, AgeSec: 100, PriorityClass: "train"}
		w.Pods = []PodSpec{{Name: "r0-p0", CPUm: 100, MemMi: 128, GPUs: int64(rapid.IntRange(1, int(g)).Draw(t, "pergpus")), State: "pending"}}
		s.World.Workloads = append(s.World.Workloads, w)
	}
	if chance(t, "pepreemptor", 50) {
		w := WorkloadSpec{Name: "h0", Queue: "qa", MinMember: 1, AgeSec: 50, PriorityClass: pick(t, "pehpc", "train", "inference"), Preemptibility: "preemptible"}
		w.Pods = []PodSpec{{Name: "h0-p0", CPUm: 100, MemMi: 128, GPUs: int64(rapid.IntRange(1, int(g)).Draw(t, "pehgpus")), State: "pending"}}
		s.World.Workloads = append(s.World.Workloads, w)
	}
	s.Ops = []Op{{Kind: "cycle"}, {Kind: "binder"}, {Kind: "kubelet"}}
	if chance(t, "pemore", 50) {
		s.Ops = append(s.Ops, Op{Kind: "advance", N: pick(t, "peadv", 1, 61, 700)}, Op{Kind: "cycle"}, Op{Kind: "binder"}, Op{Kind: "kubelet"})
	}
	return s
}

// GenDeepTreeReclaimScript: a directed profile for C06. A queue tree four to six levels deep with leaves at uneven
// depth and minimum runtimes set at arbitrary levels (a leaf overriding its ancestors with a smaller or larger value),
// one node full of running single-pod 1-GPU workloads that started some seconds to some hours ago, and pending
// workloads in other leaves: which minimum runtime protects a victim depends on where reclaimer and victim diverge.
func GenDeepTreeReclaimScript(t *rapid.T, prop string, o GenOpts) *Script {
	s := &Script{Prop: prop, Profile: "deep-queue-tree-min-runtime"}
	s.MapSeed = rapid.Uint64Range(1, 1<<62).Draw(t, "mapseed")
	s.Config = genConfig(t, o)
	s.Config.Actions = []string{"allocate", "consolidation", "reclaim", "preempt", "stalegangeviction"}
	g := int64(pick(t, "dtgpus", 4, 6, 8))
	s.World.Nodes = []NodeSpec{{Name: "n0", CPUm: 64000, MemMi: 262144, Pods: 110, GPUs: g}}
	unl := QRes{Quota: -1, Limit: -1, Weight: 1}
	depth := rapid.IntRange(4, 6).Draw(t, "dtdepth")
	var leaves []string
	var build func(name, parent string, level int)
	build = func(name, parent string, level int) {
		q := QueueSpec{Name: name, Parent: parent, CPU: unl, Mem: unl, GPU: QRes{Quota: float64(g), Limit: -1, Weight: 1}}
		if chance(t, "dtmr", 45) {
			q.ReclaimMinRuntime = pick(t, "dtrmr", "0s", "30s", "10m", "2h")
		}
		if chance(t, "dtpmr", 25) {
			q.PreemptMinRuntime = pick(t, "dtpmrv", "0s", "30s", "10m", "2h")
		}
		leaf := level >= depth || (level >= 2 && chance(t, "dtleaf", 25))
		if leaf {
			q.GPU.Quota = float64(rapid.IntRange(0, 2).Draw(t, "dtquota"))
			leaves = append(leaves, name)
			s.World.Queues = append(s.World.Queues, q)
			return
		}
		s.World.Queues = append(s.World.Queues, q)
		for c := 0; c < rapid.IntRange(1, 2).Draw(t, "dtkids"); c++ {
			build(fmt.Sprintf("%s%c", name, 'a'+c), name, level+1)
		}
	}
	build("t", "", 1)
	if len(leaves) < 2 { // a second branch so that there is somebody to reclaim from
		s.World.Queues = append(s.World.Queues, QueueSpec{Name: "tz", Parent: "t", CPU: unl, Mem: unl, GPU: QRes{Quota: 1, Limit: -1, Weight: 1}})
		leaves = append(leaves, "tz")
	}
	s.World.PriorityClasses = []PriorityClassSpec{{Name: "train", Value: 50}, {Name: "build", Value: 100}, {Name: "inference", Value: 125}, {Name: "low", Value: 25}}
	for i := 0; i < int(g); i++ {
		w := WorkloadSpec{Name: fmt.Sprintf("r%d", i), Queue: pick(t, "dtrq", leaves...), MinMember: 1, PriorityClass: pick(t, "dtrpc", "train", "train", "low"), AgeSec: int64(rapid.IntRange(1, 5000).Draw(t, "dtrage"))}
		ago := int64(pick(t, "dtstart", 5, 20, 45, 300, 900, 5000, 10000))
		w.LastStartAgo = &ago
		w.Pods = []PodSpec{{Name: fmt.Sprintf("r%d-p0", i), CPUm: 100, MemMi: 128, GPUs: 1, State: "running", Node: "n0"}}
		s.World.Workloads = append(s.World.Workloads, w)
	}
	for i := 0; i < rapid.IntRange(1, 3).Draw(t, "dtpending"); i++ {
		w := WorkloadSpec{Name: fmt.Sprintf("p%d", i), Queue: pick(t, "dtpq", leaves...), MinMember: 1, PriorityClass: pick(t, "dtppc", "train", "build", "inference"), AgeSec: int64(rapid.IntRange(1, 5000).Draw(t, "dtpage"))}
		w.Pods = []PodSpec{{Name: fmt.Sprintf("p%d-p0", i), CPUm: 100, MemMi: 128, GPUs: 1, State: "pending"}}
		s.World.Workloads = append(s.World.Workloads, w)
	}
	s.Ops = []Op{{Kind: "cycle"}, {Kind: "binder"}, {Kind: "kubelet"}}
	for c := 0; c < rapid.IntRange(0, 2).Draw(t, "dtmore"); c++ {
		s.Ops = append(s.Ops, Op{Kind: "advance", N: pick(t, "dtadv", 1, 20, 61, 600)}, Op{Kind: "recreate"}, Op{Kind: "cycle"}, Op{Kind: "binder"}, Op{Kind: "kubelet"})
	}
	return s
}
