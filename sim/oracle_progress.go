package kaisim

// C05: progress. (A) work conservation: after the allocate action no ready pending workload remains
// that fits on idle capacity (not reserved for nominated pods) within its queues' limits / quota rules.
// (B) unobstructed reclaim / preempt between interchangeable single-pod workloads on interchangeable
// nodes happens within one cycle. Both parts only judge situations whose preconditions the oracle can
// establish itself from the API objects (so that "does not fit" is never guessed).

import (
	"sort"

	corev1 "k8s.io/api/core/v1"

	"github.com/NVIDIA/KAI-scheduler/pkg/scheduler/framework"
	"github.com/NVIDIA/KAI-scheduler/pkg/scheduler/plugins/proportion"
	rs "github.com/NVIDIA/KAI-scheduler/pkg/scheduler/plugins/proportion/resource_share"
)

type ProgressOracle struct {
	BaseOracle
	fairGPU map[string]float64 // queue -> GPU fair share of the current session (-1 unlimited), read through the proportion hook
}

func (*ProgressOracle) Prop() string { return "C05" }

func (o *ProgressOracle) SessionOpen(r *Run, ssn *framework.Session) {
	o.fairGPU = nil
	attrs, _ := proportion.QueueAttributesForSim(ssn.PluginForSim("proportion"))
	if attrs == nil {
		return
	}
	o.fairGPU = map[string]float64{}
	for id, qa := range attrs {
		o.fairGPU[string(id)] = qa.ResourceShare(rs.GpuResource).FairShare
	}
}

type freeCap struct {
	cpu, mem, pods, gpus int64
}

func plainNode(n *corev1.Node, cfg SchedConfig) bool {
	if n.Spec.Unschedulable {
		return false
	}
	for _, c := range n.Status.Conditions {
		if c.Type == corev1.NodeReady && c.Status != corev1.ConditionTrue {
			return false
		}
		if c.Type != corev1.NodeReady && c.Status == corev1.ConditionTrue {
			return false
		}
	}
	for _, t := range n.Spec.Taints {
		if t.Effect != corev1.TaintEffectPreferNoSchedule {
			return false
		}
	}
	if cfg.NodePoolKey != "" {
		v, ok := n.Labels[cfg.NodePoolKey]
		if (cfg.NodePoolValue == "" && ok) || (cfg.NodePoolValue != "" && v != cfg.NodePoolValue) {
			return false
		}
	}
	for k := range n.Status.Allocatable {
		if len(k) > 15 && string(k)[:15] == "nvidia.com/mig-" {
			return false
		}
	}
	return true
}

// plainPod: a pod whose only placement requirement is cpu / memory / whole GPUs / a pod slot.
func plainPod(p *RefPod) bool {
	d := p.Demand
	if d.Shared || len(d.Ext) > 0 {
		return false
	}
	s := p.Pod.Spec
	return len(s.NodeSelector) == 0 && s.Affinity == nil && len(s.SchedulingGates) == 0 && len(s.Volumes) == 0 && len(s.ResourceClaims) == 0
}

func (o *ProgressOracle) AfterCycle(r *Run, cycle int, all []Decision) {
	pre := r.Pre
	if pre == nil {
		return
	}
	ds := okDecisions(all)
	cfg := r.S.Config
	// ---- free capacity after this cycle's decisions
	occ := Occupancy(r.API) // pods with a node or a live BindRequest, incl. terminating and just evicted ones
	free := map[string]*freeCap{}
	for name, o := range occ {
		n := o.Node
		if !plainNode(n, cfg) {
			continue
		}
		al := n.Status.Allocatable
		f := &freeCap{cpu: al.Cpu().MilliValue() - o.CPUm, mem: al.Memory().Value() - o.MemB, pods: al.Pods().Value() - o.Pods}
		if q, ok := al[GPUResource]; ok {
			f.gpus = q.Value() - o.GPUs - int64(len(o.Groups))
		}
		free[name] = f
	}
	placedByAllocate := map[string]bool{} // groups that got a placement from the allocate action
	placedAny := map[string]bool{}
	take := func(node string, p *RefPod) {
		if f := free[node]; f != nil {
			f.cpu -= p.Demand.CPUm
			f.mem -= p.Demand.MemB
			f.pods--
			if p.Demand.Shared {
				f.gpus -= p.Demand.Devices
				f.pods -= p.Demand.Devices
			} else {
				f.gpus -= p.Demand.GPUs
			}
		}
	}
	lastNode := map[string]string{}
	for _, d := range ds {
		if d.Kind == "evict" {
			// capacity freed by a later action's eviction was not idle when allocate ran: a victim that is already
			// gone from the API store (it was only being bound) still counts on the node it was placed on
			if p := pre.Pods[d.Pod]; p != nil {
				node := lastNode[d.Pod]
				if node == "" {
					node = p.Node
				}
				counted := false
				if o := occ[node]; o != nil {
					for _, m := range o.Members {
						if m == d.Pod {
							counted = true
						}
					}
				}
				if node != "" && !counted {
					take(node, p)
				}
			}
			continue
		}
		if d.Kind != "bind" && d.Kind != "pipeline" {
			continue
		}
		lastNode[d.Pod] = d.Node
		p := pre.Pods[d.Pod]
		if p == nil {
			continue
		}
		placedAny[p.Group] = true
		if d.Action == "allocate" {
			placedByAllocate[p.Group] = true
		}
		if d.Kind == "pipeline" { // nominated pods reserve their target (binds are already in the API store)
			take(d.Node, p)
		}
	}
	// ---- queue allocations after the cycle (for limits / quota rules)
	type qa struct{ all, np vec3 }
	alloc := map[string]*qa{}
	for q := range pre.Queues {
		alloc[q] = &qa{}
	}
	chainOf := func(q string) []string {
		var out []string
		seen := map[string]bool{}
		for cur := pre.Queues[q]; cur != nil && !seen[cur.Name]; cur = pre.Queues[cur.Parent] {
			seen[cur.Name] = true
			out = append(out, cur.Name)
		}
		return out
	}
	activeNode := map[string]string{}
	for name, p := range pre.Pods {
		if p.Active {
			activeNode[name] = p.Node
		}
	}
	for _, d := range ds { // evictions do not free quota before the pod is gone: keep the higher number (conservative)
		if (d.Kind == "bind" || d.Kind == "pipeline") && pre.Pods[d.Pod] != nil {
			activeNode[d.Pod] = d.Node
		}
	}
	for _, name := range sortedKeys(activeNode) {
		p := pre.Pods[name]
		g := pre.Groups[p.Group]
		if g == nil {
			continue
		}
		gp, c, m := podQueueDemand(pre, p, activeNode[name])
		if p.Demand.Shared && p.Demand.GPUMemMi > 0 {
			// the scheduler accounts a gpu-memory request as a fraction of the device rounded up to 1/100 GPU per device: the
			// witness must fit under that (larger) number as well
			gp += 0.011 * float64(max(p.Demand.Devices, 1))
		}
		for _, q := range chainOf(g.Queue) {
			v := vec3{gp, c, m}
			for k := range v {
				alloc[q].all[k] += v[k]
				if !g.Preemptible {
					alloc[q].np[k] += v[k]
				}
			}
		}
	}
	withinQueueRules := func(g *RefGroup, d vec3) bool {
		if pre.Queues[g.Queue] == nil {
			return false
		}
		for _, qn := range chainOf(g.Queue) {
			q := pre.Queues[qn]
			lim := vec3{q.GPU.Limit, q.CPU.Limit, q.Mem.Limit}
			quota := vec3{q.GPU.Quota, q.CPU.Quota, q.Mem.Quota}
			for k := range d {
				if d[k] <= 0 {
					continue
				}
				if lim[k] >= 0 && alloc[qn].all[k]+d[k] > lim[k]+1e-9 {
					return false
				}
				if !g.Preemptible && quota[k] >= 0 && alloc[qn].np[k]+d[k] > quota[k]+1e-9 {
					return false
				}
			}
		}
		return true
	}
	// ---- (A) work conservation
	for _, gname := range sortedKeys(pre.Groups) {
		g := pre.Groups[gname]
		if placedByAllocate[gname] || len(g.Sets) != 1 || g.Sets[""] == nil {
			continue
		}
		var pend []*RefPod
		simple := true
		for _, p := range g.Pods {
			if !p.Pending || !plainPod(p) {
				simple = false
			}
			pend = append(pend, p)
		}
		if !simple || len(pend) == 0 || int32(len(pend)) < g.Sets[""].Min {
			continue
		}
		// homogeneous pods only: then which pods the scheduler tries first does not matter
		for _, p := range pend[1:] {
			if p.Demand.CPUm != pend[0].Demand.CPUm || p.Demand.MemB != pend[0].Demand.MemB || p.Demand.GPUs != pend[0].Demand.GPUs {
				simple = false
			}
		}
		if !simple {
			continue
		}
		need := int(g.Sets[""].Min)
		d0 := pend[0].Demand
		r.Probe("c05_pending_workloads_judged")
		var total vec3
		total = vec3{float64(d0.GPUs) * float64(need), float64(d0.CPUm) * float64(need), float64(d0.MemB) * float64(need)}
		if !withinQueueRules(g, total) {
			continue
		}
		// how many such pods fit on the free capacity (identical pods: per-node counts add up)
		fit := 0
		var where []string
		for _, n := range sortedKeys(free) {
			f := free[n]
			k := int64(1 << 30)
			if d0.CPUm > 0 {
				k = min(k, f.cpu/d0.CPUm)
			}
			if d0.MemB > 0 {
				k = min(k, f.mem/d0.MemB)
			}
			if d0.GPUs > 0 {
				k = min(k, f.gpus/d0.GPUs)
			}
			k = min(k, f.pods)
			if k > 0 {
				fit += int(k)
				where = append(where, n)
			}
		}
		if fit >= need {
			rule := "fitting_workload_left_pending"
			if placedAny[gname] {
				rule = "fitting_workload_placed_only_by_victim_action"
			}
			r.Fail("C05", rule, "cycle %d: workload %s (queue %s, %d x {cpu %dm, mem %d, gpus %d}, min %d) got nothing from allocate although %d of its pods fit on idle capacity of %v within its queues' limits",
				cycle, gname, g.Queue, len(pend), d0.CPUm, d0.MemB, d0.GPUs, need, fit, where)
		}
	}
	// ---- (A2) work conservation for the surplus pods of an elastic workload: once the gang minimum is held (by running
	// pods and by pods placed in this cycle) the allocate action places the further pods one by one and tries the next
	// one after every success. If every remaining pending pod fits on idle capacity on its own, the one that is next in
	// order does, so none may be left. (Pods of different size are allowed: all of them must fit, each alone.)
	evictedGroup := map[string]bool{}
	placedPod := map[string]bool{}
	victimPlaced := map[string]bool{}
	for _, d := range ds {
		if p := pre.Pods[d.Pod]; p != nil {
			switch {
			case d.Kind == "evict":
				evictedGroup[p.Group] = true
			case d.Kind == "bind" || d.Kind == "pipeline":
				placedPod[d.Pod] = true
				if d.Action != "allocate" {
					victimPlaced[p.Group] = true
				}
			}
		}
	}
	for _, gname := range sortedKeys(pre.Groups) {
		g := pre.Groups[gname]
		if len(g.Sets) != 1 || g.Sets[""] == nil || evictedGroup[gname] || victimPlaced[gname] || len(cfg.QueueDepth) > 0 {
			continue
		}
		held, simple := 0, true
		var rest []*RefPod
		for _, p := range g.Pods {
			switch {
			case !plainPod(p) || p.Deleting:
				simple = false
			case p.Active || placedPod[p.Name]:
				held++
			case p.Pending:
				rest = append(rest, p)
			default:
				simple = false // finished, gated, ...: leave such workloads to the other rules
			}
		}
		if !simple || len(rest) == 0 || held == 0 || int32(held) < g.Sets[""].Min {
			continue
		}
		r.Probe("c05_elastic_workloads_with_surplus_judged")
		allFit := true
		for _, p := range rest {
			d := p.Demand
			if !withinQueueRules(g, vec3{float64(d.GPUs), float64(d.CPUm), float64(d.MemB)}) {
				allFit = false
				break
			}
			fits := false
			for _, f := range free {
				if f.cpu >= d.CPUm && f.mem >= d.MemB && f.gpus >= d.GPUs && f.pods >= 1 {
					fits = true
				}
			}
			if !fits {
				allFit = false
				break
			}
		}
		if allFit {
			r.Fail("C05", "fitting_surplus_pod_left_pending", "cycle %d: elastic workload %s (queue %s, min %d) holds %d pods after the cycle (running or placed now) and its %d remaining pending pods (first: %s {cpu %dm, mem %d, gpus %d}) each fit on idle capacity within its queues' limits, yet none of them was placed",
				cycle, gname, g.Queue, g.Sets[""].Min, held, len(rest), rest[0].Name, rest[0].Demand.CPUm, rest[0].Demand.MemB, rest[0].Demand.GPUs)
		}
	}
	if r.S.Profile == "unobstructed-departments" {
		o.departmentReclaim(r, cycle, placedAny)
		return
	}
	// ---- (B) unobstructed reclaim / preempt (only in worlds the generator built for it)
	if r.S.Profile != "unobstructed" {
		return
	}
	// preconditions re-established from the API objects
	var shape *Demand
	uniform := true
	for _, p := range pre.Pods {
		if p.Pod.Spec.SchedulerName != SchedulerName || !plainPod(p) {
			uniform = false
			continue
		}
		d := p.Demand
		if shape == nil {
			shape = &d
		} else if d.CPUm != shape.CPUm || d.MemB != shape.MemB || d.GPUs != shape.GPUs {
			uniform = false
		}
	}
	var n0 *corev1.Node
	for _, name := range sortedKeys(pre.Nodes) {
		n := pre.Nodes[name]
		if !plainNode(n, cfg) || len(n.Spec.Taints) > 0 {
			uniform = false
		}
		if n0 == nil {
			n0 = n
		} else if n.Status.Allocatable.Cpu().Cmp(*n0.Status.Allocatable.Cpu()) != 0 || n.Status.Allocatable.Memory().Cmp(*n0.Status.Allocatable.Memory()) != 0 ||
			n.Status.Allocatable.Pods().Cmp(*n0.Status.Allocatable.Pods()) != 0 {
			uniform = false
		} else if a, b := n.Status.Allocatable[GPUResource], n0.Status.Allocatable[GPUResource]; a.Cmp(b) != 0 {
			uniform = false
		}
	}
	for _, g := range pre.Groups {
		if len(g.Pods) != 1 || len(g.Sets) != 1 {
			uniform = false
		}
	}
	for _, q := range pre.Queues {
		if q.Parent != "" || q.PreemptMR != nil || q.ReclaimMR != nil {
			uniform = false
		}
	}
	if !uniform || shape == nil || shape.GPUs == 0 {
		return
	}
	// allocations at cycle start
	start := map[string]float64{}
	for _, p := range pre.Pods {
		if g := pre.Groups[p.Group]; g != nil && p.Active {
			start[g.Queue] += float64(p.Demand.GPUs)
		}
	}
	var pending []*RefGroup
	for _, gname := range sortedKeys(pre.Groups) {
		if g := pre.Groups[gname]; g.Pods[0].Pending {
			pending = append(pending, g)
		}
	}
	// victims available to reclaim: preemptible running pods of queues above their deserved GPU quota
	excess := 0.0
	for qn, q := range pre.Queues {
		if q.GPU.Quota < 0 {
			continue
		}
		pre_ := 0.0
		for _, p := range pre.Pods {
			if g := pre.Groups[p.Group]; g != nil && g.Queue == qn && p.Active && g.Preemptible {
				pre_ += float64(p.Demand.GPUs)
			}
		}
		excess += max(0, min(start[qn]-q.GPU.Quota, pre_))
	}
	// pending workloads that keep their queue within deserved quota, in the order the demand adds up
	sort.Slice(pending, func(i, j int) bool { return pending[i].Name < pending[j].Name })
	added := map[string]float64{}
	var within []*RefGroup
	for _, g := range pending {
		q := pre.Queues[g.Queue]
		if q == nil || q.GPU.Quota < 0 {
			continue
		}
		if lim := q.GPU.Limit; lim >= 0 && start[g.Queue]+added[g.Queue]+float64(shape.GPUs) > lim {
			continue
		}
		if start[g.Queue]+added[g.Queue]+float64(shape.GPUs) <= q.GPU.Quota {
			added[g.Queue] += float64(shape.GPUs)
			within = append(within, g)
		}
	}
	// Either every pending workload is within quota, or the excess held by over-quota queues is large enough to serve
	// every pending workload (each of them can take at most one victim's worth away: single pods of one shape): otherwise
	// which workload is served is a matter of order
	allWithin := true
	for _, g := range pending {
		ok := false
		for _, w := range within {
			if w == g {
				ok = true
			}
		}
		if !ok {
			allWithin = false
		}
	}
	if !allWithin {
		if float64(len(pending))*float64(shape.GPUs) <= excess+1e-9 {
			r.Probe("c05_unobstructed_reclaim_judged_with_over_quota_competitors")
			// inside one queue the quota goes to the pending workloads in the queue's own order: a workload is judged only
			// if every pending workload of its queue stays within the quota
			outside := map[string]bool{}
			for _, g := range pending {
				in := false
				for _, w := range within {
					if w == g {
						in = true
					}
				}
				if !in {
					outside[g.Queue] = true
				}
			}
			var keep []*RefGroup
			for _, w := range within {
				if !outside[w.Queue] {
					keep = append(keep, w)
				}
			}
			within = keep
		} else {
			within = nil
		}
	}
	hasAction := func(a string) bool {
		for _, x := range cfg.Actions {
			if x == a {
				return true
			}
		}
		return false
	}
	if hasAction("reclaim") && len(within) > 0 && float64(len(within))*float64(shape.GPUs) <= excess+1e-9 {
		r.Probe("c05_unobstructed_reclaim_judged")
		for _, g := range within {
			if !placedAny[g.Name] {
				r.Fail("C05", "unobstructed_reclaim_missing", "cycle %d: workload %s keeps queue %s within its deserved GPU quota (%.0f + %d <= %.0f) and preemptible pods of over-quota queues hold %.0f GPUs in excess, yet it obtained nothing in this cycle",
					cycle, g.Name, g.Queue, start[g.Queue], shape.GPUs, pre.Queues[g.Queue].GPU.Quota, excess)
			}
		}
	}
	// preempt inside a queue: a pending workload with strictly lower-priority preemptible running workloads in its own
	// queue. With several pending workloads every other one can take at most one of those victims away (all workloads
	// are single pods of one shape: one reclaim or preempt eviction each), so the workload is judged only if at least as
	// many victims as pending workloads exist; the queue's limit must leave room for all pending workloads of the queue.
	if hasAction("preempt") && len(pending) >= 1 {
		pendingInQueue := map[string]float64{}
		for _, g := range pending {
			pendingInQueue[g.Queue] += float64(shape.GPUs)
		}
		for _, g := range pending {
			victims := 0
			for _, og := range pre.Groups {
				if og.Queue == g.Queue && og != g && og.Pods[0].Active && og.Preemptible && og.Priority < g.Priority {
					victims++
				}
			}
			q := pre.Queues[g.Queue]
			limOK := q != nil && (q.GPU.Limit < 0 || start[g.Queue]+pendingInQueue[g.Queue]-float64(shape.GPUs) <= q.GPU.Limit)
			if len(pending) == 1 {
				limOK = q != nil && (q.GPU.Limit < 0 || start[g.Queue] <= q.GPU.Limit)
			}
			quotaOK := g.Preemptible
			if victims >= len(pending) && limOK && quotaOK {
				r.Probe("c05_unobstructed_preempt_judged")
				if len(pending) > 1 {
					r.Probe("c05_unobstructed_preempt_judged_with_competitors")
				}
				if !placedAny[g.Name] {
					r.Fail("C05", "unobstructed_preempt_missing", "cycle %d: workload %s (priority %d) of queue %s obtained nothing although %d strictly lower-priority preemptible workloads of its own queue are running (%d pending workloads in total)", cycle, g.Name, g.Priority, g.Queue, victims, len(pending))
				}
			}
		}
	}
}

// departmentReclaim: (C) unobstructed reclaim between sibling leaf queues of one department (two-level hierarchy,
// interchangeable single-pod 1-GPU workloads on interchangeable nodes). A pending workload of leaf L is judged when
//   - L with ALL its pending workloads stays within L's deserved GPU quota and within L's fair share of this session,
//   - a sibling leaf V of the same department holds at least as many preemptible running pods above its deserved quota
//     as the department has such entitled pending workloads (so the order among them does not matter),
//   - the department itself is within its deserved quota and fair share, so that no workload of another department may
//     take anything from it (neither reclaim strategy applies at department level), and the swap inside the department
//     leaves the department's allocation unchanged.
// Then every strategy / saturation check of the reclaim validator passes by construction and the workload must obtain
// a node (bound or nominated) in this cycle, whatever other departments' pending workloads do before or after it.
func (o *ProgressOracle) departmentReclaim(r *Run, cycle int, placedAny map[string]bool) {
	pre, cfg := r.Pre, r.S.Config
	if o.fairGPU == nil {
		return
	}
	hasReclaim := false
	for _, a := range cfg.Actions {
		if a == "reclaim" {
			hasReclaim = true
		}
	}
	if !hasReclaim {
		return
	}
	for _, p := range pre.Pods {
		if p.Pod.Spec.SchedulerName != SchedulerName || !plainPod(p) || p.Demand.GPUs != 1 || p.Deleting {
			return
		}
	}
	var n0 *corev1.Node
	for _, name := range sortedKeys(pre.Nodes) {
		n := pre.Nodes[name]
		if !plainNode(n, cfg) || len(n.Spec.Taints) > 0 {
			return
		}
		if n0 == nil {
			n0 = n
		} else if a, b := n.Status.Allocatable[GPUResource], n0.Status.Allocatable[GPUResource]; a.Cmp(b) != 0 {
			return
		}
	}
	for _, g := range pre.Groups {
		if len(g.Pods) != 1 || len(g.Sets) != 1 {
			return
		}
	}
	for _, q := range pre.Queues {
		if q.PreemptMR != nil || q.ReclaimMR != nil || q.GPU.Limit >= 0 {
			return
		}
		if q.Parent != "" && (pre.Queues[q.Parent] == nil || pre.Queues[q.Parent].Parent != "") {
			return // two levels only
		}
	}
	alloc := map[string]float64{}       // leaf and department -> GPUs of active pods
	preemptible := map[string]float64{} // leaf -> GPUs of preemptible active pods
	pendingIn := map[string][]*RefGroup{}
	candidates := map[string]float64{} // department -> preemptible pods that are or may become active in this cycle
	for _, gname := range sortedKeys(pre.Groups) {
		g := pre.Groups[gname]
		q := pre.Queues[g.Queue]
		if q == nil || q.Parent == "" {
			return
		}
		switch p := g.Pods[0]; {
		case p.Active:
			alloc[g.Queue]++
			alloc[q.Parent]++
			if g.Preemptible {
				preemptible[g.Queue]++
				candidates[q.Parent]++
			}
		case p.Pending:
			pendingIn[g.Queue] = append(pendingIn[g.Queue], g)
			if g.Preemptible {
				candidates[q.Parent]++ // may be placed by allocate earlier in this cycle and then be taken as a victim
			}
		default:
			return // terminating / gated pods: capacity in flux
		}
	}
	within := func(q string, extra float64) bool {
		rq := pre.Queues[q]
		f, ok := o.fairGPU[q]
		return rq.GPU.Quota >= 0 && alloc[q]+extra <= rq.GPU.Quota+1e-9 && ok && (f < 0 || alloc[q]+extra <= f+1e-9)
	}
	for _, dname := range sortedKeys(pre.Queues) {
		d := pre.Queues[dname]
		if d.Parent != "" || !within(dname, 0) {
			continue
		}
		var entitled []*RefGroup
		entitledLeaf := map[string]bool{}
		for _, l := range d.Children {
			if n := len(pendingIn[l]); n > 0 && within(l, float64(n)) {
				entitled = append(entitled, pendingIn[l]...)
				entitledLeaf[l] = true
			}
		}
		if len(entitled) == 0 {
			continue
		}
		ok := false
		for _, v := range d.Children {
			if entitledLeaf[v] || pre.Queues[v].GPU.Quota < 0 {
				continue
			}
			over := alloc[v] - pre.Queues[v].GPU.Quota
			if min(over, preemptible[v]) >= float64(len(entitled)) && preemptible[v] == alloc[v] {
				ok = true
			}
		}
		if !ok {
			continue
		}
		r.Probe("c05_department_reclaim_judged")
		// The solver takes potential victims in the victim order of the whole queue tree, interleaving pods of other
		// departments that may not be reclaimed from, and never drops a potential victim again: such a pod spoils every
		// later scenario (recorded finding). The clean case is the one where no other department holds preemptible pods (running, or pending and
		// possibly placed by allocate earlier in the cycle).
		rule := "unobstructed_department_reclaim_missing"
		for _, oname := range sortedKeys(pre.Queues) {
			od := pre.Queues[oname]
			if od.Parent != "" || oname == dname {
				continue
			}
			if candidates[oname] > 0 {
				rule = "unobstructed_department_reclaim_missing_behind_other_department"
			}
		}
		if rule == "unobstructed_department_reclaim_missing" {
			r.Probe("c05_department_reclaim_judged_no_foreign_victims")
		}
		for _, g := range entitled {
			if !placedAny[g.Name] {
				r.Fail("C05", rule, "cycle %d: workload %s keeps leaf queue %s (and department %s) within deserved quota and fair share, a sibling leaf of the department holds enough preemptible pods above its quota, yet the workload obtained nothing in this cycle",
					cycle, g.Name, g.Queue, dname)
			}
		}
	}
}
