package kaisim

// DRA worlds: nodes publish devices through ResourceSlices, pods reference ResourceClaims (their own, named as a claim
// template would name them, i.e. differently from the pod-level reference, or a claim shared by several pods). The
// device class deliberately is not a GPU class, so claimed devices are a resource of their own (uniqueness of each
// device is the conservation law) and do not mix with GPU quota accounting.

import (
	"fmt"
	"sort"
	"strconv"
	"strings"

	corev1 "k8s.io/api/core/v1"
	resourceapi "k8s.io/api/resource/v1"
	metav1 "k8s.io/apimachinery/pkg/apis/meta/v1"
	"k8s.io/apimachinery/pkg/runtime"
	"k8s.io/apimachinery/pkg/runtime/schema"
	"k8s.io/apimachinery/pkg/types"
	"k8s.io/utils/ptr"
	"pgregory.net/rapid"

	bindv1alpha2 "github.com/NVIDIA/KAI-scheduler/pkg/apis/scheduling/v1alpha2"
)

const (
	DRADriver = "accel.example.com"
	DRAClass  = "accel.example.com"
	DRAReq    = "req"
)

var (
	ClaimGVR = schema.GroupVersionResource{Group: "resource.k8s.io", Version: "v1", Resource: "resourceclaims"}
	SliceGVR = schema.GroupVersionResource{Group: "resource.k8s.io", Version: "v1", Resource: "resourceslices"}
	ClassGVR = schema.GroupVersionResource{Group: "resource.k8s.io", Version: "v1", Resource: "deviceclasses"}
)

// ClaimRef: one entry of pod.spec.resourceClaims.
type ClaimRef struct {
	Ref      string   `json:"ref"`               // pod-level reference name
	Shared   string   `json:"shared,omitempty"`  // name of a shared claim of the world; "" = the pod's own claim
	Template bool     `json:"template,omitempty"` // own claim referenced through a template (name recorded in pod status)
	Count    int      `json:"count,omitempty"`   // devices of the pod's own claim
	Devices  []string `json:"devices,omitempty"` // placed pods: the devices allocated on the pod's node
}

type SharedClaimSpec struct {
	Name    string   `json:"name"`
	Count   int      `json:"count"`
	Node    string   `json:"node,omitempty"`    // allocated already (some consumer runs)
	Devices []string `json:"devices,omitempty"`
}

func (w *World) HasDRA() bool {
	for _, n := range w.Nodes {
		if n.DRADevices > 0 {
			return true
		}
	}
	return false
}

func ownClaimName(pod string, c ClaimRef) string { return pod + "-" + c.Ref + "-claim" }

func claimNameFor(pod string, c ClaimRef) string {
	if c.Shared != "" {
		return c.Shared
	}
	return ownClaimName(pod, c)
}

func draDeviceName(i int) string { return fmt.Sprintf("dev-%d", i) }

func buildAllocation(node string, devices []string) *resourceapi.AllocationResult {
	a := &resourceapi.AllocationResult{
		NodeSelector: &corev1.NodeSelector{NodeSelectorTerms: []corev1.NodeSelectorTerm{{
			MatchFields: []corev1.NodeSelectorRequirement{{Key: "metadata.name", Operator: corev1.NodeSelectorOpIn, Values: []string{node}}}}}},
	}
	for _, d := range devices {
		a.Devices.Results = append(a.Devices.Results, resourceapi.DeviceRequestAllocationResult{Request: DRAReq, Driver: DRADriver, Pool: node, Device: d})
	}
	return a
}

func buildClaim(name string, count int, owner *corev1.Pod) *resourceapi.ResourceClaim {
	c := &resourceapi.ResourceClaim{
		TypeMeta:   metav1.TypeMeta{APIVersion: "resource.k8s.io/v1", Kind: "ResourceClaim"},
		ObjectMeta: metav1.ObjectMeta{Name: name, Namespace: NS, UID: types.UID("claim-" + name), ResourceVersion: "1"},
		Spec: resourceapi.ResourceClaimSpec{Devices: resourceapi.DeviceClaim{Requests: []resourceapi.DeviceRequest{{
			Name: DRAReq, Exactly: &resourceapi.ExactDeviceRequest{DeviceClassName: DRAClass, AllocationMode: resourceapi.DeviceAllocationModeExactCount, Count: int64(count)}}}}},
	}
	if owner != nil {
		c.OwnerReferences = []metav1.OwnerReference{{APIVersion: "v1", Kind: "Pod", Name: owner.Name, UID: owner.UID, Controller: ptr.To(true)}}
	}
	return c
}

// draObjects: device class, one ResourceSlice per node with devices, the claims of the world.
func (w *World) draObjects(pods map[string]*corev1.Pod) []runtime.Object {
	if !w.HasDRA() {
		return nil
	}
	out := []runtime.Object{&resourceapi.DeviceClass{TypeMeta: metav1.TypeMeta{APIVersion: "resource.k8s.io/v1", Kind: "DeviceClass"},
		ObjectMeta: metav1.ObjectMeta{Name: DRAClass, UID: "class-accel", ResourceVersion: "1"}}}
	for _, n := range w.Nodes {
		if n.DRADevices <= 0 {
			continue
		}
		s := &resourceapi.ResourceSlice{TypeMeta: metav1.TypeMeta{APIVersion: "resource.k8s.io/v1", Kind: "ResourceSlice"},
			ObjectMeta: metav1.ObjectMeta{Name: n.Name + "-slice", UID: types.UID("slice-" + n.Name), ResourceVersion: "1"},
			Spec: resourceapi.ResourceSliceSpec{Driver: DRADriver, Pool: resourceapi.ResourcePool{Name: n.Name, ResourceSliceCount: 1, Generation: 1}, NodeName: ptr.To(n.Name)}}
		for i := 0; i < n.DRADevices; i++ {
			s.Spec.Devices = append(s.Spec.Devices, resourceapi.Device{Name: draDeviceName(i)})
		}
		out = append(out, s)
	}
	shared := map[string]*resourceapi.ResourceClaim{}
	for _, sc := range w.SharedClaims {
		c := buildClaim(sc.Name, sc.Count, nil)
		if sc.Node != "" {
			c.Status.Allocation = buildAllocation(sc.Node, sc.Devices)
		}
		shared[sc.Name] = c
	}
	for i := range w.Workloads {
		for _, p := range w.Workloads[i].Pods {
			pod := pods[p.Name]
			for _, cr := range p.Claims {
				live := p.Node != "" && p.State != "succeeded" && p.State != "failed"
				if cr.Shared != "" {
					if c := shared[cr.Shared]; c != nil && live && c.Status.Allocation != nil {
						c.Status.ReservedFor = append(c.Status.ReservedFor, resourceapi.ResourceClaimConsumerReference{Resource: "pods", Name: pod.Name, UID: pod.UID})
					}
					continue
				}
				c := buildClaim(ownClaimName(p.Name, cr), max(1, cr.Count), pod)
				if live && len(cr.Devices) > 0 {
					c.Status.Allocation = buildAllocation(p.Node, cr.Devices)
					c.Status.ReservedFor = []resourceapi.ResourceClaimConsumerReference{{Resource: "pods", Name: pod.Name, UID: pod.UID}}
				}
				out = append(out, c)
			}
		}
	}
	for _, n := range sortedKeys(shared) {
		out = append(out, shared[n])
	}
	return out
}

// addPodClaims: pod.spec.resourceClaims / container claims (and the status entry a claim template leaves).
func addPodClaims(pod *corev1.Pod, p PodSpec) {
	for _, cr := range p.Claims {
		prc := corev1.PodResourceClaim{Name: cr.Ref}
		name := claimNameFor(p.Name, cr)
		if cr.Template && cr.Shared == "" {
			prc.ResourceClaimTemplateName = ptr.To(p.Name + "-" + cr.Ref + "-template")
			pod.Status.ResourceClaimStatuses = append(pod.Status.ResourceClaimStatuses, corev1.PodResourceClaimStatus{Name: cr.Ref, ResourceClaimName: ptr.To(name)})
		} else {
			prc.ResourceClaimName = ptr.To(name)
		}
		pod.Spec.ResourceClaims = append(pod.Spec.ResourceClaims, prc)
		pod.Spec.Containers[0].Resources.Claims = append(pod.Spec.Containers[0].Resources.Claims, corev1.ResourceClaim{Name: cr.Ref})
	}
}

func (s *SimAPI) Claims() []*resourceapi.ResourceClaim {
	obj, err := s.Tracker.List(ClaimGVR, schema.GroupVersionKind{Group: "resource.k8s.io", Version: "v1", Kind: "ResourceClaim"}, "")
	if err != nil {
		return nil
	}
	l, ok := obj.(*resourceapi.ResourceClaimList)
	if !ok {
		return nil
	}
	var out []*resourceapi.ResourceClaim
	for i := range l.Items {
		out = append(out, &l.Items[i])
	}
	sort.Slice(out, func(i, j int) bool { return out[i].Name < out[j].Name })
	return out
}

// updateClaim writes a claim and bumps its resourceVersion as the API server would (the scheduler's assume cache
// orders claim versions numerically).
func (s *SimAPI) updateClaim(c *resourceapi.ResourceClaim) {
	rv, _ := strconv.Atoi(c.ResourceVersion)
	c.ResourceVersion = strconv.Itoa(rv + 1)
	must(s.Tracker.Update(ClaimGVR, c, c.Namespace))
}

func (s *SimAPI) Claim(name string) *resourceapi.ResourceClaim {
	obj, err := s.Tracker.Get(ClaimGVR, NS, name)
	if err != nil {
		return nil
	}
	return obj.(*resourceapi.ResourceClaim)
}

// podClaimNames: reference name -> ResourceClaim object name, as the API objects say.
func podClaimNames(pod *corev1.Pod) map[string]string {
	out := map[string]string{}
	for _, prc := range pod.Spec.ResourceClaims {
		if prc.ResourceClaimName != nil {
			out[prc.Name] = *prc.ResourceClaimName
			continue
		}
		for _, st := range pod.Status.ResourceClaimStatuses {
			if st.Name == prc.Name && st.ResourceClaimName != nil {
				out[prc.Name] = *st.ResourceClaimName
			}
		}
	}
	return out
}

// applyClaimAllocations: what the binder's DRA plugin does on a successful bind: the allocation chosen by the scheduler
// is written to the claim and the pod is added to its consumers.
func (r *Run) applyClaimAllocations(br *bindv1alpha2.BindRequest, pod *corev1.Pod) {
	names := podClaimNames(pod)
	for _, ca := range br.Spec.ResourceClaimAllocations {
		c := r.API.Claim(names[ca.Name])
		if c == nil {
			continue
		}
		c = c.DeepCopy()
		if c.Status.Allocation == nil && ca.Allocation != nil {
			c.Status.Allocation = ca.Allocation.DeepCopy()
		}
		found := false
		for _, rf := range c.Status.ReservedFor {
			if rf.UID == pod.UID {
				found = true
			}
		}
		if !found {
			c.Status.ReservedFor = append(c.Status.ReservedFor, resourceapi.ResourceClaimConsumerReference{Resource: "pods", Name: pod.Name, UID: pod.UID})
		}
		r.API.updateClaim(c)
		r.Probe("dra_claim_bound")
	}
}

// claimController: the kube-controller-manager's resource claim controller and garbage collector: consumers that no
// longer exist (or finished) are removed from reservedFor, an unused claim is deallocated, a claim owned by a pod that is
// gone is deleted.
func (r *Run) claimController() {
	livePods := map[types.UID]bool{}
	for _, p := range r.API.Pods() {
		if !podTerminated(p) {
			livePods[p.UID] = true
		}
	}
	allPods := map[types.UID]bool{}
	for _, p := range r.API.Pods() {
		allPods[p.UID] = true
	}
	for _, c := range r.API.Claims() {
		if len(c.OwnerReferences) == 1 && !allPods[c.OwnerReferences[0].UID] {
			_ = r.API.Tracker.Delete(ClaimGVR, c.Namespace, c.Name)
			r.Probe("dra_claim_garbage_collected")
			continue
		}
		var keep []resourceapi.ResourceClaimConsumerReference
		for _, rf := range c.Status.ReservedFor {
			if livePods[rf.UID] {
				keep = append(keep, rf)
			}
		}
		if len(keep) == len(c.Status.ReservedFor) {
			continue
		}
		c = c.DeepCopy()
		c.Status.ReservedFor = keep
		if len(keep) == 0 {
			c.Status.Allocation = nil
			r.Probe("dra_claim_deallocated")
		}
		r.API.updateClaim(c)
	}
}

// DRAOccupancy: device -> holders, from the claims' status and from the allocations promised by live BindRequests
// (a claim that is allocated in the API and promised identically counts once).
func DRAOccupancy(api *SimAPI) (holders map[string][]string, problems []string) {
	holders = map[string][]string{}
	allocated := map[string]map[string]bool{} // claim -> devices
	add := func(claim string, a *resourceapi.AllocationResult, via string) {
		if a == nil {
			return
		}
		for _, d := range a.Devices.Results {
			key := d.Driver + "/" + d.Pool + "/" + d.Device
			if allocated[claim] == nil {
				allocated[claim] = map[string]bool{}
			}
			if allocated[claim][key] {
				continue
			}
			allocated[claim][key] = true
			holders[key] = append(holders[key], claim+via)
		}
	}
	for _, c := range api.Claims() {
		add(c.Name, c.Status.Allocation, "")
		if c.Status.Allocation == nil && len(c.Status.ReservedFor) > 0 {
			problems = append(problems, fmt.Sprintf("claim %s is reserved for %d consumers but not allocated", c.Name, len(c.Status.ReservedFor)))
		}
	}
	nodes := map[string]bool{}
	for _, n := range api.Nodes() {
		nodes[n.Name] = true
	}
	for _, br := range api.BindRequests() {
		if br.DeletionTimestamp != nil || br.Status.Phase == bindv1alpha2.BindRequestPhaseSucceeded || BRTerminallyFailed(br) {
			continue
		}
		pod := api.Pod(br.Namespace, br.Spec.PodName)
		if pod == nil || pod.DeletionTimestamp != nil {
			continue
		}
		names := podClaimNames(pod)
		for _, ca := range br.Spec.ResourceClaimAllocations {
			if ca.Allocation == nil {
				continue
			}
			for _, d := range ca.Allocation.Devices.Results {
				if d.Pool != br.Spec.SelectedNode {
					problems = append(problems, fmt.Sprintf("BindRequest %s selects node %s but promises device %s/%s of claim %s", br.Name, br.Spec.SelectedNode, d.Pool, d.Device, names[ca.Name]))
				}
			}
			add(names[ca.Name], ca.Allocation, " (promised by BindRequest "+br.Name+")")
		}
	}
	// a pod bound to a node must hold devices of that node only
	for _, p := range api.Pods() {
		if p.Spec.NodeName == "" || podTerminated(p) || !nodes[p.Spec.NodeName] {
			continue
		}
		for _, cn := range podClaimNames(p) {
			if c := api.Claim(cn); c != nil && c.Status.Allocation != nil {
				for _, d := range c.Status.Allocation.Devices.Results {
					if d.Pool != p.Spec.NodeName {
						problems = append(problems, fmt.Sprintf("pod %s runs on %s but its claim %s holds device %s/%s", p.Name, p.Spec.NodeName, cn, d.Pool, d.Device))
					}
				}
			}
		}
	}
	return
}

func draViolations(api *SimAPI) []string {
	holders, problems := DRAOccupancy(api)
	for _, k := range sortedKeys(holders) {
		if len(holders[k]) > 1 {
			hs := append([]string(nil), holders[k]...)
			sort.Strings(hs)
			problems = append(problems, fmt.Sprintf("device %s is allocated to %d claims: %s", k, len(hs), strings.Join(hs, ", ")))
		}
	}
	return problems
}

// decorateDRA adds devices to the nodes and resource claims to a share of the pods of a generated world, keeping the
// initial state feasible: a placed pod's claims are allocated on its node from devices nobody else holds.
func decorateDRA(t *rapid.T, s *Script) {
	w := &s.World
	free := map[string][]string{}
	any := false
	for i := range w.Nodes {
		w.Nodes[i].DRADevices = pick(t, "dradev", 0, 1, 2, 2, 3, 4)
		for d := 0; d < w.Nodes[i].DRADevices; d++ {
			free[w.Nodes[i].Name] = append(free[w.Nodes[i].Name], draDeviceName(d))
			any = true
		}
	}
	if !any {
		w.Nodes[0].DRADevices = 2
		free[w.Nodes[0].Name] = []string{draDeviceName(0), draDeviceName(1)}
	}
	s.Config.DRA = true
	take := func(node string, n int) []string {
		if len(free[node]) < n {
			return nil
		}
		d := append([]string(nil), free[node][:n]...)
		free[node] = free[node][n:]
		return d
	}
	var shared *SharedClaimSpec
	if chance(t, "drashared", 40) {
		w.SharedClaims = []SharedClaimSpec{{Name: "shared-claim", Count: 1}}
		shared = &w.SharedClaims[0]
	}
	for wi := range w.Workloads {
		for pi := range w.Workloads[wi].Pods {
			p := &w.Workloads[wi].Pods[pi]
			if p.OtherSched || !chance(t, "drapod", 35) {
				continue
			}
			placed := p.Node != "" && p.State != "succeeded" && p.State != "failed"
			if shared != nil && chance(t, "drauseshared", 40) {
				if placed {
					if shared.Node == "" {
						if d := take(p.Node, shared.Count); d != nil {
							shared.Node, shared.Devices = p.Node, d
						} else {
							continue
						}
					} else if shared.Node != p.Node {
						continue
					}
				}
				p.Claims = append(p.Claims, ClaimRef{Ref: "sh", Shared: shared.Name})
				continue
			}
			cr := ClaimRef{Ref: "acc", Count: pick(t, "dracount", 1, 1, 2), Template: chance(t, "dratemplate", 50)}
			if placed {
				if cr.Devices = take(p.Node, cr.Count); cr.Devices == nil {
					continue
				}
			}
			p.Claims = append(p.Claims, cr)
		}
	}
}
