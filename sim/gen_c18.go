package kaisim

import (
	"fmt"

	"pgregory.net/rapid"
)

var c18Kinds = []string{"pod", "spark", "replicaset", "statefulset", "custom", "deployment", "job", "cronjob", "pytorch", "workflow_pytorch", "tfjob",
	"mpi", "jobset", "trainjob", "workflow_pod", "notebook", "lws",
	"raycluster", "rayjob", "rayservice", "knative", "grove", "dynamo", "jax", "xgboost", "amljob", "runaijob", "seldon", "vmi", "spotrequest", "taskrun", "devworkspace"}

func genC18Meta(t *rapid.T, w *C18Workload) {
	w.OwnerLabels, w.OwnerAnnots, w.PodLabels, w.PodAnnots, w.TopLabels = map[string]string{}, map[string]string{}, map[string]string{}, map[string]string{}, map[string]string{}
	put := func(label, key string, vals ...string) {
		switch pick(t, label+"_where", "none", "none", "owner", "pod", "both", "top") {
		case "owner":
			w.OwnerLabels[key] = pick(t, label, vals...)
		case "pod":
			w.PodLabels[key] = pick(t, label, vals...)
		case "both":
			w.OwnerLabels[key] = pick(t, label, vals...)
			w.PodLabels[key] = pick(t, label+"2", vals...)
		case "top":
			w.TopLabels[key] = pick(t, label, vals...)
		}
	}
	put("queue", c18QueueLabel, "qa", "qb")
	put("project", "project", "pa", "pb")
	put("priority", "priorityClassName", "high", "build", "nope")
	put("preempt", "kai.scheduler/preemptibility", "preemptible", "non-preemptible", "bogus")
	put("nodepool", NodePoolKey, "pool-a", "pool-b")
	put("user", "user", "alice", "bob")
	w.PodPriority = pick(t, "podpc", "", "", "train", "inference", "missing")
	if rapid.Bool().Draw(t, "topology") {
		w.OwnerAnnots["kai.scheduler/topology"] = "topo"
		w.OwnerAnnots["kai.scheduler/topology-required-placement"] = pick(t, "treq", "rack", "zone")
		if rapid.Bool().Draw(t, "tpref") {
			w.OwnerAnnots["kai.scheduler/topology-preferred-placement"] = "rack"
		}
	}
	if rapid.Bool().Draw(t, "userannot") {
		w.PodAnnots["user"] = "carol"
	}
}

func GenC18Script(t *rapid.T, thorough bool) *Script {
	s := &Script{Prop: "C18", Profile: "pod-grouper", C18: &C18Script{}}
	s.MapSeed = rapid.Uint64Range(1, 1<<62).Draw(t, "mapseed")
	c := s.C18
	c.DefaultsCM = rapid.IntRange(0, 3).Draw(t, "defaultscm") == 0
	nw := rapid.IntRange(1, 3).Draw(t, "nworkloads")
	for i := 0; i < nw; i++ {
		w := C18Workload{Kind: pick(t, "kind", c18Kinds...), Name: fmt.Sprintf("w%d", i), Replicas: rapid.IntRange(1, 4).Draw(t, "replicas")}
		genC18Meta(t, &w)
		switch w.Kind {
		case "pytorch", "workflow_pytorch", "tfjob":
			w.Masters = rapid.IntRange(0, 1).Draw(t, "masters")
			w.MinAvailable = pick(t, "minavail", 0, 0, 1, 2)
			w.ElasticMin = pick(t, "elastic", 0, 0, 1, 2)
			if w.Kind != "tfjob" && rapid.IntRange(0, 2).Draw(t, "segmented") == 0 {
				w.PodAnnots["kai.scheduler/segment-size"] = pick(t, "segsize", "1", "2")
				if rapid.Bool().Draw(t, "segtopo") {
					w.PodAnnots["kai.scheduler/topology"] = "topo"
					w.PodAnnots["kai.scheduler/segment-topology-required-placement"] = "rack"
				}
			}
			if w.Kind != "tfjob" && rapid.IntRange(0, 3).Draw(t, "scaleddown") == 0 {
				w.ScaledDown = rapid.IntRange(1, 2).Draw(t, "scaledby")
			}
		case "mpi":
			w.MinAvailable = pick(t, "minavail", 0, 0, 2)
			w.Delayed = rapid.Bool().Draw(t, "delayed")
			w.Replicas = rapid.IntRange(2, 4).Draw(t, "mpireplicas")
		case "job":
			w.Parallelism = rapid.IntRange(1, 3).Draw(t, "parallelism")
		case "jobset", "trainjob":
			w.AnyOrder = rapid.Bool().Draw(t, "anyorder")
			w.ChildMetaDiffers = rapid.IntRange(0, 2).Draw(t, "childmeta") == 0
			w.Parallelism = rapid.IntRange(1, 3).Draw(t, "parallelism")
			w.Completions = pick(t, "completions", 0, 1, 2, 4)
			w.RJReplicas = rapid.IntRange(1, 2).Draw(t, "rjreplicas")
			w.Replicas = rapid.IntRange(2, 4).Draw(t, "jsreplicas")
		case "lws":
			w.GroupSize = rapid.IntRange(1, 3).Draw(t, "groupsize")
		case "raycluster", "rayjob", "rayservice":
			w.Replicas = rapid.IntRange(2, 4).Draw(t, "rayreplicas")
			w.GroupSize = rapid.IntRange(1, 2).Draw(t, "numofhosts")
			w.ElasticMin = pick(t, "rayminreplicas", 0, 0, 1, 2)
			w.AnyOrder = rapid.Bool().Draw(t, "suspendedgroup")
			w.Delayed = rapid.Bool().Draw(t, "rayvariant")
		case "knative":
			w.ElasticMin = pick(t, "minscale", 0, 1, 2, 3)
			w.Delayed = rapid.Bool().Draw(t, "badminscale")
		case "grove", "dynamo":
			w.Replicas = rapid.IntRange(2, 4).Draw(t, "grovereplicas")
			w.ElasticMin = pick(t, "cliquemin", 0, 1, 2)
			w.AnyOrder = rapid.Bool().Draw(t, "grovetopology")
			w.PodPriority = pick(t, "gangpriority", "", "", "train", "high")
		case "jax", "xgboost":
			w.Masters = rapid.IntRange(0, 1).Draw(t, "masters")
			w.MinAvailable = pick(t, "minavail", 0, 0, 1, 2)
		}
		c.Workloads = append(c.Workloads, w)
	}
	tapeOf := func(n int, label string) []int {
		var out []int
		for j := 0; j < n; j++ {
			out = append(out, rapid.IntRange(0, 7).Draw(t, label))
		}
		return out
	}
	// every workload gets some pods at once, the rest arrive later
	for i := range c.Workloads {
		c.Steps = append(c.Steps, C18Step{Kind: "create", W: i, Pods: []int{0, rapid.IntRange(0, 5).Draw(t, "firstpods")}})
	}
	n := rapid.IntRange(2, 12).Draw(t, "nsteps")
	for i := 0; i < n; i++ {
		wi := rapid.IntRange(0, nw-1).Draw(t, "w")
		var st C18Step
		switch pick(t, "c18kind", "create", "create", "drain", "drain", "drain", "foreign", "foreign", "foreign_mid", "owner_label", "owner_label", "fail", "delete", "schedule", "restart") {
		case "create":
			st = C18Step{Kind: "create", W: wi, Pods: []int{rapid.IntRange(0, 5).Draw(t, "pod"), rapid.IntRange(0, 5).Draw(t, "pod")}}
		case "drain":
			st = C18Step{Kind: "drain", K: rapid.IntRange(1, 3).Draw(t, "k"), Tape: tapeOf(rapid.IntRange(0, 30).Draw(t, "ntape"), "dtape")}
		case "foreign":
			arg := pick(t, "field", "queue", "mark", "backoff", "nodepool_set", "nodepool_del", "queue_label", "extra")
			st = C18Step{Kind: "foreign", W: wi, Pods: []int{rapid.IntRange(0, 5).Draw(t, "pod")}, Arg: arg, Val: pick(t, "fval", "x", "true", "false", "pool-z")}
		case "foreign_mid":
			arg := pick(t, "field", "queue", "mark", "backoff", "nodepool_set", "nodepool_del")
			st = C18Step{Kind: "foreign_mid", W: wi, Pods: []int{rapid.IntRange(0, 5).Draw(t, "pod")}, Arg: arg, Val: pick(t, "fval", "x", "true", "false", "pool-z"), N: rapid.IntRange(1, 8).Draw(t, "midn")}
		case "owner_label":
			st = C18Step{Kind: "owner_label", W: wi, Arg: pick(t, "olabel", "priorityClassName", "kai.scheduler/preemptibility", c18QueueLabel, "user", "team"),
				Val: pick(t, "oval", "", "high", "build", "preemptible", "qb")}
		case "fail":
			st = C18Step{Kind: "fail", N: rapid.IntRange(1, 8).Draw(t, "failn"), Arg: pick(t, "how", "error", "after")}
		case "delete":
			st = C18Step{Kind: "delete", W: wi, Pods: []int{rapid.IntRange(0, 5).Draw(t, "pod")}}
		case "schedule":
			st = C18Step{Kind: "schedule", W: wi, Pods: []int{rapid.IntRange(0, 5).Draw(t, "pod")}}
		case "restart":
			st = C18Step{Kind: "restart"}
		}
		c.Steps = append(c.Steps, st)
	}
	c.Tape = tapeOf(rapid.IntRange(0, 30).Draw(t, "ntape"), "tape")
	return s
}
