package kaisim

// Scheduler actor: the real SchedulerCache (informers, snapshot, evictor, status updater) on the
// SimAPI clientsets, wrapped by a recording decorator, driven one real cycle at a time.

import (
	"fmt"
	"runtime/debug"
	"sort"
	"strings"
	"sync"
	"time"

	corev1 "k8s.io/api/core/v1"
	fakediscovery "k8s.io/client-go/discovery/fake"
	apiversion "k8s.io/apimachinery/pkg/version"
	metav1 "k8s.io/apimachinery/pkg/apis/meta/v1"
	k8stesting "k8s.io/client-go/testing"

	"github.com/NVIDIA/KAI-scheduler/pkg/scheduler"
	"github.com/NVIDIA/KAI-scheduler/pkg/scheduler/actions"
	"github.com/NVIDIA/KAI-scheduler/pkg/scheduler/api/common_info"
	"github.com/NVIDIA/KAI-scheduler/pkg/scheduler/api/eviction_info"
	"github.com/NVIDIA/KAI-scheduler/pkg/scheduler/api/pod_info"
	"github.com/NVIDIA/KAI-scheduler/pkg/scheduler/api/podgroup_info"
	"github.com/NVIDIA/KAI-scheduler/pkg/scheduler/api/queue_info"
	schedcache "github.com/NVIDIA/KAI-scheduler/pkg/scheduler/cache"
	usageapi "github.com/NVIDIA/KAI-scheduler/pkg/scheduler/cache/usagedb/api"
	"github.com/NVIDIA/KAI-scheduler/pkg/scheduler/conf"
	"github.com/NVIDIA/KAI-scheduler/pkg/scheduler/framework"
	schedlog "github.com/NVIDIA/KAI-scheduler/pkg/scheduler/log"
	"github.com/NVIDIA/KAI-scheduler/pkg/scheduler/plugins"
)

// Decision is one Bind / Evict / TaskPipelined call observed at the cache.Cache seam.
type Decision struct {
	Seq         int      `json:"seq"`
	Cycle       int      `json:"cycle"`
	Action      string   `json:"action"`
	Kind        string   `json:"kind"` // bind | evict | pipeline
	Pod         string   `json:"pod"`
	Group       string   `json:"group"`
	SubGroup    string   `json:"sub_group,omitempty"`
	Node        string   `json:"node"`
	GPUGroups   []string `json:"gpu_groups,omitempty"`
	EvictAction string   `json:"evict_action,omitempty"`
	Preemptor   string   `json:"preemptor,omitempty"`
	Err         string   `json:"err,omitempty"`
}

type SessionHooks interface {
	OnSessionOpen(ssn *framework.Session)
	BeforeAction(name string, ssn *framework.Session)
	AfterAction(name string, ssn *framework.Session)
	OnAllocate(ssn *framework.Session, ev *framework.Event)
	OnDeallocate(ssn *framework.Session, ev *framework.Event)
	OnSessionClose(ssn *framework.Session)
}

// one run at a time per process
var (
	curMu    sync.Mutex
	curHooks SessionHooks
	curObs   *obsCache
)

func setCurrent(h SessionHooks, o *obsCache) {
	curMu.Lock()
	curHooks, curObs = h, o
	curMu.Unlock()
}
func getHooks() SessionHooks {
	curMu.Lock()
	defer curMu.Unlock()
	return curHooks
}

type obsCache struct {
	// beforeEvict (one shot per cycle, set by the run): environment event that lands between the snapshot and the n-th
	// eviction of the cycle (the victim completes or is deleted while the cycle is running)
	beforeEvict func(n int, pod *corev1.Pod)
	evictCalls  int
	crashed func() bool // the scheduler process has crashed in this cycle: later "decisions" never reach the cluster
	schedcache.Cache
	mu        sync.Mutex
	Decisions []Decision
	cycle     int
	action    string
}

func (o *obsCache) add(d Decision) {
	if o.crashed != nil && o.crashed() && d.Err == "" {
		d.Err = "the scheduler process crashed before this call reached the API server"
	}
	o.mu.Lock()
	d.Seq = len(o.Decisions)
	d.Cycle = o.cycle
	d.Action = o.action
	o.Decisions = append(o.Decisions, d)
	o.mu.Unlock()
}

func (o *obsCache) Bind(p *pod_info.PodInfo, hostname string, ann map[string]string) error {
	err := o.Cache.Bind(p, hostname, ann)
	d := Decision{Kind: "bind", Pod: p.Name, Group: string(p.Job), SubGroup: p.SubGroupName, Node: hostname,
		GPUGroups: append([]string(nil), p.GPUGroups...)}
	if err != nil {
		d.Err = err.Error()
	}
	o.add(d)
	return err
}

func (o *obsCache) Evict(pod *corev1.Pod, job *podgroup_info.PodGroupInfo, md eviction_info.EvictionMetadata, msg string) error {
	o.mu.Lock()
	o.evictCalls++
	n, hook := o.evictCalls, o.beforeEvict
	o.mu.Unlock()
	if hook != nil {
		hook(n, pod)
	}
	err := o.Cache.Evict(pod, job, md, msg)
	d := Decision{Kind: "evict", Pod: pod.Name, Group: string(job.UID), Node: pod.Spec.NodeName, EvictAction: md.Action}
	if md.Preemptor != nil {
		d.Preemptor = md.Preemptor.Name
	}
	if err != nil {
		d.Err = err.Error()
	}
	o.add(d)
	return err
}

func (o *obsCache) TaskPipelined(p *pod_info.PodInfo, msg string) {
	o.Cache.TaskPipelined(p, msg)
	o.add(Decision{Kind: "pipeline", Pod: p.Name, Group: string(p.Job), SubGroup: p.SubGroupName, Node: p.NodeName,
		GPUGroups: append([]string(nil), p.GPUGroups...)})
}

func (o *obsCache) CycleDecisions(cycle int) []Decision {
	o.mu.Lock()
	defer o.mu.Unlock()
	var out []Decision
	for _, d := range o.Decisions {
		if d.Cycle == cycle {
			out = append(out, d)
		}
	}
	return out
}

// ---- wrappers registered through the framework's own registration seams ----

type actionWrapper struct{ inner framework.Action }

func (w actionWrapper) Name() framework.ActionType { return w.inner.Name() }
func (w actionWrapper) Execute(ssn *framework.Session) {
	name := string(w.inner.Name())
	curMu.Lock()
	h, o := curHooks, curObs
	curMu.Unlock()
	if o != nil {
		o.mu.Lock()
		o.action = name
		o.mu.Unlock()
	}
	if h != nil {
		h.BeforeAction(name, ssn)
	}
	w.inner.Execute(ssn)
	if h != nil {
		h.AfterAction(name, ssn)
	}
	if o != nil {
		o.mu.Lock()
		o.action = ""
		o.mu.Unlock()
	}
}

type monitorPlugin struct{}

func (monitorPlugin) Name() string { return "verif-monitor" }
func (monitorPlugin) OnSessionOpen(ssn *framework.Session) {
	h := getHooks()
	if h == nil {
		return
	}
	ssn.AddEventHandler(&framework.EventHandler{
		AllocateFunc:   func(ev *framework.Event) { h.OnAllocate(ssn, ev) },
		DeallocateFunc: func(ev *framework.Event) { h.OnDeallocate(ssn, ev) },
	})
	h.OnSessionOpen(ssn)
}
func (monitorPlugin) OnSessionClose(ssn *framework.Session) {
	if h := getHooks(); h != nil {
		h.OnSessionClose(ssn)
	}
}

var initOnce sync.Once

// freshActions registers new action objects, as a newly started scheduler process does: action objects live as
// long as the process and are reused for every cycle, so state they keep must not leak from one simulated run
// (one scheduler incarnation) into the next.
func freshActions() {
	actions.InitDefaultActions()
	for _, n := range []string{"allocate", "consolidation", "reclaim", "preempt", "stalegangeviction"} {
		a, ok := framework.GetAction(n)
		if !ok {
			panic("action not registered: " + n)
		}
		framework.RegisterAction(actionWrapper{inner: a})
	}
}

func initSchedulerGlobals() {
	initOnce.Do(func() {
		must(schedlog.InitLoggers(envIntRun("KAISIM_LOG_V", -1)))
		plugins.InitDefaultPlugins()
		framework.RegisterAction(stmtFuzzAction{})
		framework.RegisterPluginBuilder("verif-monitor", func(framework.PluginArguments) framework.Plugin { return monitorPlugin{} })
	})
}

// SchedConfig: the part of a script that configures the scheduler.
type SchedConfig struct {
	Actions               []string          `json:"actions"`
	GPUPlacement          string            `json:"gpu_placement"` // binpack | spread
	CPUPlacement          string            `json:"cpu_placement"`
	GPUSharingOrder       string            `json:"gpu_order"` // gpupack | gpuspread
	SaturationMultiplier  string            `json:"saturation,omitempty"`
	KValue                string            `json:"k_value,omitempty"`
	MinRuntimeArgs        map[string]string `json:"minruntime_args,omitempty"`
	UseSignatures         bool              `json:"signatures"`
	ConsolidatingReclaim  bool              `json:"consolidating_reclaim"`
	MaxConsolidation      int               `json:"max_consolidation"`
	FullHierarchyFairness bool              `json:"full_fairness"`
	NodePoolKey           string            `json:"node_pool_key,omitempty"`
	NodePoolValue         string            `json:"node_pool_value,omitempty"`
	StaleGraceSec         int               `json:"stale_grace_s"`
	QueueDepth            map[string]int    `json:"queue_depth,omitempty"`
	CSIStorage            bool              `json:"csi_storage,omitempty"` // scheduleCSIStorage: PVCs, storage classes, CSI capacities are snapshotted
	DropPlugins           []string          `json:"drop_plugins,omitempty"`
	// Usage: historical usage per queue, normalised to cluster capacity (gpu, cpu, memory), served by a usage-db stub
	Usage map[string][3]float64 `json:"usage,omitempty"`
	// DRA: the API server serves resource.k8s.io/v1 (set by the generator when the world has ResourceSlices)
	DRA bool `json:"dra,omitempty"`
}

// simUsageDB is the usage database of the simulation (time-based fair share, C09).
type simUsageDB struct{ usage map[string][3]float64 }

func (u *simUsageDB) GetResourceUsage() (*queue_info.ClusterUsage, error) {
	cu := queue_info.NewClusterUsage()
	for q, v := range u.usage {
		cu.Queues[common_info.QueueID(q)] = queue_info.QueueUsage{GPUResource: v[0], corev1.ResourceCPU: v[1], corev1.ResourceMemory: v[2]}
	}
	return cu, nil
}

func DefaultSchedConfig() SchedConfig {
	return SchedConfig{
		Actions:      []string{"allocate", "consolidation", "reclaim", "preempt", "stalegangeviction"},
		GPUPlacement: "binpack", CPUPlacement: "binpack", GPUSharingOrder: "gpupack",
		UseSignatures: true, MaxConsolidation: 16, FullHierarchyFairness: true, StaleGraceSec: 60,
	}
}

func (c SchedConfig) build() (*conf.SchedulerConfiguration, *conf.SchedulerParams) {
	names := []string{"predicates", "proportion", "priority", "elastic", "kubeflow", "ray", "nodeavailability",
		"gpusharingorder", c.GPUSharingOrder, "resourcetype", "subgrouporder", "taskorder", "nominatednode",
		"dynamicresources", "nodeplacement", "minruntime", "topology", "verif-monitor"}
	tier := conf.Tier{}
	for _, n := range names {
		drop := false
		for _, d := range c.DropPlugins {
			if d == n {
				drop = true
			}
		}
		if drop {
			continue
		}
		po := conf.PluginOption{Name: n}
		switch n {
		case "nodeplacement":
			po.Arguments = map[string]string{"cpu": c.CPUPlacement, "gpu": c.GPUPlacement}
		case "proportion":
			po.Arguments = map[string]string{}
			if c.SaturationMultiplier != "" {
				po.Arguments["relcaimerSaturationMultiplier"] = c.SaturationMultiplier
			}
			if c.KValue != "" {
				po.Arguments["kValue"] = c.KValue
			}
		case "minruntime":
			po.Arguments = c.MinRuntimeArgs
		}
		tier.Plugins = append(tier.Plugins, po)
	}
	sc := &conf.SchedulerConfiguration{
		Actions:             strings.Join(c.Actions, ", "),
		Tiers:               []conf.Tier{tier},
		QueueDepthPerAction: c.QueueDepth,
	}
	params := &conf.SchedulerParams{
		SchedulerName:                     SchedulerName,
		PartitionParams:                   &conf.SchedulingNodePoolParams{NodePoolLabelKey: c.NodePoolKey, NodePoolLabelValue: c.NodePoolValue},
		MaxNumberConsolidationPreemptees:  c.MaxConsolidation,
		UseSchedulingSignatures:           c.UseSignatures,
		FullHierarchyFairness:             c.FullHierarchyFairness,
		AllowConsolidatingReclaim:         c.ConsolidatingReclaim,
		NumOfStatusRecordingWorkers:       1,
		GlobalDefaultStalenessGracePeriod: time.Duration(c.StaleGraceSec) * time.Second,
		SchedulePeriod:                    time.Second,
		QueueLabelKey:                     "kai.scheduler/queue",
		ScheduleCSIStorage:                c.CSIStorage,
	}
	return sc, params
}

func usageClient(cfg SchedConfig) usageapi.Interface {
	if cfg.Usage == nil {
		return nil
	}
	return &simUsageDB{usage: cfg.Usage}
}

func usageParams(cfg SchedConfig) *usageapi.UsageParams {
	if cfg.Usage == nil {
		return nil
	}
	p := &usageapi.UsageParams{}
	p.SetDefaults()
	return p
}

// simDiscovery: what the API server announces. With dra, a server new enough for DRA serving resource.k8s.io/v1.
func simDiscovery(dra bool) *fakediscovery.FakeDiscovery {
	d := &fakediscovery.FakeDiscovery{Fake: &k8stesting.Fake{}}
	if dra {
		d.FakedServerVersion = &apiversion.Info{Major: "1", Minor: "34", GitVersion: "v1.34.0"}
		d.Resources = []*metav1.APIResourceList{{GroupVersion: "resource.k8s.io/v1", APIResources: []metav1.APIResource{
			{Name: "resourceclaims", Kind: "ResourceClaim", Namespaced: true}, {Name: "resourceslices", Kind: "ResourceSlice"}, {Name: "deviceclasses", Kind: "DeviceClass"}}}}
	}
	return d
}

type SchedActor struct {
	Actor      string // client incarnation name ("scheduler", "scheduler#2", ...)
	API        *SimAPI
	Clients    *Clients
	Obs        *obsCache
	sched      *scheduler.Scheduler
	stopCh     chan struct{}
	Panic      string
	PanicStack string
}

func NewSchedActor(api *SimAPI, cfg SchedConfig, hooks SessionHooks, incarnation ...string) *SchedActor {
	initSchedulerGlobals()
	freshActions()
	sc, params := cfg.build()
	actor := "scheduler"
	if len(incarnation) > 0 && incarnation[0] != "" {
		actor = incarnation[0]
	}
	cl := api.ClientsFor(actor)
	real := schedcache.New(&schedcache.SchedulerCacheParams{
		SchedulerName:               params.SchedulerName,
		NodePoolParams:              params.PartitionParams,
		KubeClient:                  cl.Kube,
		KAISchedulerClient:          cl.Kai,
		FullHierarchyFairness:       params.FullHierarchyFairness,
		AllowConsolidatingReclaim:   params.AllowConsolidatingReclaim,
		ScheduleCSIStorage:          params.ScheduleCSIStorage,
		NumOfStatusRecordingWorkers: 1,
		DiscoveryClient:             simDiscovery(cfg.DRA),
		UsageDBClient:               usageClient(cfg),
		UsageDBParams:               usageParams(cfg),
	})
	obs := &obsCache{Cache: real}
	if r, ok := hooks.(*Run); ok {
		obs.crashed = func() bool {
			r.API.mu.Lock()
			defer r.API.mu.Unlock()
			return r.crashAt > 0 && r.schedCalls >= r.crashAt
		}
	}
	a := &SchedActor{API: api, Clients: cl, Obs: obs, stopCh: make(chan struct{}), Actor: actor}
	a.sched = scheduler.NewSchedulerForSim(obs, sc, params)
	setCurrent(hooks, obs)
	real.Run(a.stopCh)
	real.WaitForCacheSync(a.stopCh)
	return a
}

// RunCycle runs one real scheduling cycle; a panic is caught and recorded.
func (a *SchedActor) RunCycle(cycle int) (panicked bool) {
	a.Obs.mu.Lock()
	a.Obs.cycle = cycle
	a.Obs.mu.Unlock()
	defer func() {
		if r := recover(); r != nil {
			a.Panic = fmt.Sprintf("%v", r)
			a.PanicStack = string(debug.Stack())
			panicked = true
		}
	}()
	a.sched.RunOnceForSim()
	return false
}

func (a *SchedActor) Stop() {
	close(a.stopCh)
	setCurrent(nil, nil)
}

func sortedKeys[V any](m map[string]V) []string {
	ks := make([]string, 0, len(m))
	for k := range m {
		ks = append(ks, k)
	}
	sort.Strings(ks)
	return ks
}
