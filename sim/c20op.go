package kaisim

// C20, operator clause: "the operator's deployment of the components is a fixpoint determined only by its
// configuration". The real ConfigReconciler (hook H8) and SchedulingShardReconciler with all real operands run against
// a controller-runtime fake client over one object tracker; the simulator is their work queue, injects API failures,
// lost responses and crashes at the k-th API call of a reconcile, edits the Config / shards between reconciles and
// deletes operand objects behind the operator's back. After the faults stop the operator is reconciled until the
// operand objects stop changing; then (1) one more reconcile of everything must leave every operand object unchanged,
// (2) the operand objects must equal those an uninterrupted deployment of the *final* configuration produces on a
// fresh cluster (generated certificate bytes abstracted to the secret that holds them), (3) every webhook CA bundle
// must be the certificate stored in a secret, every operand object must be owned by its Config / shard.

import (
	"context"
	"encoding/json"
	"fmt"
	"os"
	"reflect"
	"runtime/debug"
	"sort"
	"strings"
	"sync"
	"testing"
	"testing/synctest"
	"time"

	nvidiav1 "github.com/NVIDIA/gpu-operator/api/nvidia/v1"
	monitoringv1 "github.com/prometheus-operator/prometheus-operator/pkg/apis/monitoring/v1"
	admissionv1 "k8s.io/api/admissionregistration/v1"
	appsv1 "k8s.io/api/apps/v1"
	corev1 "k8s.io/api/core/v1"
	apiextensionsv1 "k8s.io/apiextensions-apiserver/pkg/apis/apiextensions/v1"
	apimeta "k8s.io/apimachinery/pkg/api/meta"
	metav1 "k8s.io/apimachinery/pkg/apis/meta/v1"
	"k8s.io/apimachinery/pkg/runtime"
	"k8s.io/apimachinery/pkg/runtime/serializer"
	"k8s.io/apimachinery/pkg/types"
	k8sscheme "k8s.io/client-go/kubernetes/scheme"
	k8stesting "k8s.io/client-go/testing"
	ctrl "sigs.k8s.io/controller-runtime"
	"sigs.k8s.io/controller-runtime/pkg/client"
	"sigs.k8s.io/controller-runtime/pkg/client/apiutil"
	crfake "sigs.k8s.io/controller-runtime/pkg/client/fake"
	"sigs.k8s.io/controller-runtime/pkg/client/interceptor"

	kaiv1 "github.com/NVIDIA/KAI-scheduler/pkg/apis/kai/v1"
	opcontroller "github.com/NVIDIA/KAI-scheduler/pkg/operator/controller"
	"github.com/NVIDIA/KAI-scheduler/pkg/operator/operands"
	opadmission "github.com/NVIDIA/KAI-scheduler/pkg/operator/operands/admission"
	opbinder "github.com/NVIDIA/KAI-scheduler/pkg/operator/operands/binder"
	"github.com/NVIDIA/KAI-scheduler/pkg/operator/operands/known_types"
	opnsa "github.com/NVIDIA/KAI-scheduler/pkg/operator/operands/node_scale_adjuster"
	oppgc "github.com/NVIDIA/KAI-scheduler/pkg/operator/operands/pod_group_controller"
	oppg "github.com/NVIDIA/KAI-scheduler/pkg/operator/operands/pod_grouper"
	opprom "github.com/NVIDIA/KAI-scheduler/pkg/operator/operands/prometheus"
	opqc "github.com/NVIDIA/KAI-scheduler/pkg/operator/operands/queue_controller"
	opsched "github.com/NVIDIA/KAI-scheduler/pkg/operator/operands/scheduler"
)

// ---- script -----------------------------------------------------------------------------------------------------

type C20OpShard struct {
	Name  string   `json:"name"`
	Frags []string `json:"frags,omitempty"`
}

type C20OpEnv struct {
	PromCRDs      bool   `json:"prom_crds,omitempty"`      // prometheus-operator CRDs installed
	ClusterPolicy string `json:"cluster_policy,omitempty"` // "" none | "cdi" | "cdi-default" | "nocdi"
	FakeGPUNode   bool   `json:"fake_gpu_node,omitempty"`
	QueueCRD      string `json:"queue_crd,omitempty"` // "" absent | "plain" | "conversion"
	// PreSecrets: the webhook TLS secrets of an earlier installation are still there (not owned by the Config): the
	// operator adopts them instead of generating keys (also keeps most runs free of RSA key generation)
	PreSecrets bool `json:"pre_secrets,omitempty"`
}

type C20OpStep struct {
	Kind  string `json:"kind"` // reconcile | edit_config | shard_put | shard_delete | foreign_delete | deploy_status | env | restart
	Arg   string `json:"arg,omitempty"`
	Val   string `json:"val,omitempty"`
	N     int    `json:"n,omitempty"`     // reconcile: fault at the N-th API call of this reconcile (0 = none)
	Fault string `json:"fault,omitempty"` // err | lost | crash
}

type C20OpScript struct {
	Frags  []string     `json:"frags,omitempty"`
	Shards []C20OpShard `json:"shards,omitempty"`
	Env    C20OpEnv     `json:"env"`
	Steps  []C20OpStep  `json:"steps"`
}

// Config fragments: JSON merged (deep) into an empty ConfigSpec. Every fragment is a legal user setting.
var opConfigFrags = map[string]string{
	"ns":                `{"namespace":"kai-alt"}`,
	"replicas2":         `{"global":{"replicaCount":2}}`,
	"nodeselector":      `{"global":{"nodeSelector":{"role":"infra"}}}`,
	"tolerations":       `{"global":{"tolerations":[{"key":"infra","operator":"Exists","effect":"NoSchedule"}]}}`,
	"ds-tolerations":    `{"global":{"daemonsetsTolerations":[{"key":"gpu","operator":"Exists"}]}}`,
	"pullsecrets1":      `{"global":{"additionalImagePullSecrets":["regcred"]}}`,
	"pullsecrets3":      `{"global":{"additionalImagePullSecrets":["regcred","mirror","backup"]}}`,
	"schedulername":     `{"global":{"schedulerName":"kai-alt-scheduler"}}`,
	"nslabelselector":   `{"global":{"namespaceLabelSelector":{"kai":"on"}}}`,
	"podlabelselector":  `{"global":{"podLabelSelector":{"kai":"on"}}}`,
	"openshift":         `{"global":{"openshift":true}}`,
	"affinity":          `{"global":{"affinity":{"nodeAffinity":{"requiredDuringSchedulingIgnoredDuringExecution":{"nodeSelectorTerms":[{"matchExpressions":[{"key":"role","operator":"In","values":["infra"]}]}]}}}}}`,
	"antiaffinity-req":  `{"global":{"requireDefaultPodAntiAffinityTerm":true}}`,
	"nodepoolkey":       `{"global":{"nodePoolLabelKey":"kai.scheduler/pool"}}`,
	"queuelabelkey":     `{"global":{"queueLabelKey":"kai.scheduler/q"}}`,
	"pg-off":            `{"podGrouper":{"service":{"enabled":false}}}`,
	"binder-off":        `{"binder":{"service":{"enabled":false}}}`,
	"admission-off":     `{"admission":{"service":{"enabled":false}}}`,
	"qc-off":            `{"queueController":{"service":{"enabled":false}}}`,
	"pgc-off":           `{"podGroupController":{"service":{"enabled":false}}}`,
	"nsa-off":           `{"nodeScaleAdjuster":{"service":{"enabled":false}}}`,
	"nsa-on":            `{"nodeScaleAdjuster":{"service":{"enabled":true}}}`,
	"sched-off":         `{"scheduler":{"service":{"enabled":false}}}`,
	"binder-image":      `{"binder":{"service":{"image":{"tag":"v9.9.9","repository":"registry.local/kai"}}}}`,
	"binder-resources":  `{"binder":{"service":{"resources":{"limits":{"cpu":"2","memory":"1Gi"},"requests":{"cpu":"100m"}}}}}`,
	"binder-affinity":   `{"binder":{"service":{"affinity":{"podAntiAffinity":{"requiredDuringSchedulingIgnoredDuringExecution":[{"labelSelector":{"matchLabels":{"app":"binder"}},"topologyKey":"zone"}]}}}}}`,
	"binder-rr-ns":      `{"binder":{"resourceReservation":{"namespace":"rr-alt","serviceAccountName":"rr-sa"}}}`,
	"binder-cdi":        `{"binder":{"cdiEnabled":true}}`,
	"binder-replicas":   `{"binder":{"replicas":3}}`,
	"binder-ports":      `{"binder":{"probePort":9081,"metricsPort":9080}}`,
	"adm-names":         `{"admission":{"validatingWebhookConfigurationName":"val-alt","mutatingWebhookConfigurationName":"mut-alt"}}`,
	"adm-nogpusharing":  `{"admission":{"gpuSharing":false}}`,
	"adm-queuelabelsel": `{"admission":{"queueLabelSelector":true}}`,
	"adm-runtimeclass":  `{"admission":{"gpuPodRuntimeClassName":"nvidia-alt"}}`,
	"adm-ports":         `{"admission":{"webhook":{"port":8443,"targetPort":9444}}}`,
	"qc-novalidation":   `{"queueController":{"webhooks":{"enableValidation":false}}}`,
	"qc-prefix":         `{"queueController":{"webhooks":{"webhookConfigurationNamePrefix":"alt-queue-validation-"}}}`,
	"qc-metrics":        `{"queueController":{"metricsNamespace":"kaimetrics","queueLabelToMetricLabel":"team=team"}}`,
	"pgc-novalidation":  `{"podGroupController":{"webhooks":{"enableValidation":false}}}`,
	"pgc-prefix":        `{"podGroupController":{"webhooks":{"webhookConfigurationNamePrefix":"alt-podgroup-validation-"}}}`,
	"pgc-reconciles":    `{"podGroupController":{"maxConcurrentReconciles":7}}`,
	"pg-knative":        `{"podGrouper":{"args":{"gangScheduleKnative":false}}}`,
	"pg-qps":            `{"podGrouper":{"k8sClientConfig":{"qps":77,"burst":99}}}`,
	"sched-gogc":        `{"scheduler":{"GOGC":200}}`,
	"sched-svcport":     `{"scheduler":{"schedulerService":{"port":9999,"targetPort":9998}}}`,
	"sched-image":       `{"scheduler":{"service":{"image":{"name":"sched-alt","pullPolicy":"Always"}}}}`,
	"prom-on":           `{"prometheus":{"enabled":true}}`,
	"prom-storage":      `{"prometheus":{"enabled":true,"enablePersistentStorage":true,"storageSize":"20Gi","storageClassName":"fast"}}`,
	"prom-retention":    `{"prometheus":{"enabled":true,"retentionPeriod":"3w","sampleInterval":"30s"}}`,
	"prom-nosm":         `{"prometheus":{"enabled":true,"serviceMonitor":{"enabled":false}}}`,
	"prom-instance":     `{"prometheus":{"enabled":true,"instanceName":"prom-alt"}}`,
}

var opShardFrags = map[string]string{
	"partition":   `{"partitionLabelValue":"pool-a"}`,
	"spread":      `{"placementStrategy":{"gpu":"spread","cpu":"spread"}}`,
	"binpack":     `{"placementStrategy":{"gpu":"binpack","cpu":"binpack"}}`,
	"args":        `{"args":{"v":"4","max-pods-per-node":"77"}}`,
	"depth":       `{"queueDepthPerAction":{"allocate":30,"reclaim":5}}`,
	"minruntime":  `{"minRuntime":{"preemptMinRuntime":"5m","reclaimMinRuntime":"10m"}}`,
	"kvalue":      `{"kValue":1.5}`,
	"plugins":     `{"plugins":{"minruntime":{"enabled":false},"nodeplacement":{"priority":250,"arguments":{"gpu":"spread"}}}}`,
	"actions":     `{"actions":{"consolidation":{"enabled":false},"reclaim":{"priority":77}}}`,
	"usagedb":     `{"usageDBConfig":{"clientType":"prometheus","connectionString":"http://prom:9090"}}`,
}

func mergeJSON(dst, src map[string]any) {
	for k, v := range src {
		if sm, ok := v.(map[string]any); ok {
			if dm, ok := dst[k].(map[string]any); ok {
				mergeJSON(dm, sm)
				continue
			}
			nm := map[string]any{}
			mergeJSON(nm, sm)
			dst[k] = nm
			continue
		}
		dst[k] = v
	}
}

func fragsToJSON(cat map[string]string, frags []string) []byte {
	m := map[string]any{}
	fs := append([]string(nil), frags...)
	sort.Strings(fs)
	for _, f := range fs {
		var one map[string]any
		must(json.Unmarshal([]byte(cat[f]), &one))
		mergeJSON(m, one)
	}
	b, _ := json.Marshal(m)
	return b
}

func toggle(set []string, x string) []string {
	for i, s := range set {
		if s == x {
			return append(append([]string(nil), set[:i]...), set[i+1:]...)
		}
	}
	return append(append([]string(nil), set...), x)
}

// ---- world ------------------------------------------------------------------------------------------------------

var (
	opSchemeOnce sync.Once
	opScheme     *runtime.Scheme
)

func OpScheme() *runtime.Scheme {
	opSchemeOnce.Do(func() {
		s := runtime.NewScheme()
		must(k8sscheme.AddToScheme(s))
		must(apiextensionsv1.AddToScheme(s))
		must(kaiv1.AddToScheme(s))
		must(nvidiav1.AddToScheme(s))
		must(monitoringv1.AddToScheme(s))
		opScheme = s
	})
	return opScheme
}

type opWorld struct {
	tracker   k8stesting.ObjectTracker
	admin     client.Client // no faults, not counted
	op        client.Client // the operator's client: counted, faulted
	cfgRec    *opcontroller.ConfigReconciler
	shardRec  *opcontroller.SchedulingShardReconciler
	calls     int // API calls of the current reconcile
	writes    int
	failAt    int
	faultKind string
	dead      bool // crash: every further call of this reconcile fails and nothing is applied
	res       *Result
	cfgGen    int64
}

func newConfigOperands() []operands.Operand {
	return []operands.Operand{
		&oppg.PodGrouper{}, &opbinder.Binder{}, &opqc.QueueController{}, &oppgc.PodGroupController{},
		&opnsa.NodeScaleAdjuster{}, &opadmission.Admission{}, &opprom.Prometheus{}, &opsched.SchedulerForConfig{},
	}
}

func (w *opWorld) newIncarnation() {
	w.cfgRec = opcontroller.NewConfigReconcilerForSim(w.op, OpScheme(), newConfigOperands())
	w.shardRec = opcontroller.NewSchedulingShardReconciler(w.op, OpScheme())
	w.shardRec.SetOperands(opcontroller.OperandsForShard)
}

func (w *opWorld) trace(verb string, obj any) {
	if os.Getenv("KAISIM_OP_TRACE") == "" {
		return
	}
	name := ""
	if o, ok := obj.(client.Object); ok {
		name = o.GetNamespace() + "/" + o.GetName()
	}
	fmt.Printf("OPCALL #%d %s %T %s\n", w.calls, verb, obj, name)
}

// pre is called before every API call of the operator. It returns (skipApply, errToReturn, lostAfterApply).
func (w *opWorld) pre(verb string, mutating bool) (bool, error, bool) {
	w.calls++
	if w.dead {
		return true, fmt.Errorf("simulated crash: the process is gone"), false
	}
	if w.failAt > 0 && w.calls == w.failAt {
		switch w.faultKind {
		case "crash":
			w.dead = true
			w.res.Faults["crash before "+verb]++
			return true, fmt.Errorf("simulated crash: the process is gone"), false
		case "lost":
			if mutating {
				w.res.Faults["lost response "+verb]++
				return false, nil, true
			}
			fallthrough
		default:
			w.res.Faults["error "+verb]++
			return true, fmt.Errorf("simulated api failure (%s)", verb), false
		}
	}
	return false, nil, false
}

func newOpWorld(res *Result) *opWorld {
	w := &opWorld{res: res}
	codecs := serializer.NewCodecFactory(OpScheme())
	w.tracker = k8stesting.NewObjectTracker(OpScheme(), codecs.UniversalDecoder())
	build := func(funcs *interceptor.Funcs) client.Client {
		b := crfake.NewClientBuilder().WithScheme(OpScheme()).WithObjectTracker(w.tracker).
			WithStatusSubresource(&kaiv1.Config{}, &kaiv1.SchedulingShard{}, &appsv1.Deployment{}, &appsv1.DaemonSet{})
		seen := map[*known_types.Collectable]bool{}
		for _, c := range append(append([]*known_types.Collectable(nil), known_types.KAIConfigRegisteredCollectible...), known_types.SchedulingShardRegisteredCollectable...) {
			if !seen[c] && c.InitWithFakeClientBuilder != nil {
				seen[c] = true
				c.InitWithFakeClientBuilder(b)
			}
		}
		if funcs != nil {
			b = b.WithInterceptorFuncs(*funcs)
		}
		return b.Build()
	}
	w.admin = build(nil)
	lostErr := fmt.Errorf("simulated timeout: the response was lost")
	funcs := interceptor.Funcs{
		Get: func(ctx context.Context, c client.WithWatch, key client.ObjectKey, obj client.Object, opts ...client.GetOption) error {
			w.trace("get", obj)
			if skip, err, _ := w.pre("get", false); skip {
				return err
			}
			if err := c.Get(ctx, key, obj, opts...); err != nil {
				return err
			}
			stampGVK(obj) // controller-runtime's cache reader (what a manager's client reads from) sets the GVK
			return nil
		},
		List: func(ctx context.Context, c client.WithWatch, list client.ObjectList, opts ...client.ListOption) error {
			w.trace("list", list)
			if skip, err, _ := w.pre("list", false); skip {
				return err
			}
			if err := c.List(ctx, list, opts...); err != nil {
				return err
			}
			_ = apimeta.EachListItem(list, func(o runtime.Object) error {
				if co, ok := o.(client.Object); ok {
					stampGVK(co)
				}
				return nil
			})
			return nil
		},
		Create: func(ctx context.Context, c client.WithWatch, obj client.Object, opts ...client.CreateOption) error {
			w.trace("create", obj)
			skip, err, lost := w.pre("create", true)
			if skip {
				return err
			}
			w.writes++
			if e := c.Create(ctx, obj, opts...); e != nil {
				return e
			}
			if lost {
				return lostErr
			}
			return nil
		},
		Update: func(ctx context.Context, c client.WithWatch, obj client.Object, opts ...client.UpdateOption) error {
			w.trace("update", obj)
			skip, err, lost := w.pre("update", true)
			if skip {
				return err
			}
			w.writes++
			if e := c.Update(ctx, obj, opts...); e != nil {
				return e
			}
			if lost {
				return lostErr
			}
			return nil
		},
		Delete: func(ctx context.Context, c client.WithWatch, obj client.Object, opts ...client.DeleteOption) error {
			w.trace("delete", obj)
			skip, err, lost := w.pre("delete", true)
			if skip {
				return err
			}
			w.writes++
			if e := c.Delete(ctx, obj, opts...); e != nil {
				return e
			}
			if lost {
				return lostErr
			}
			return nil
		},
		Patch: func(ctx context.Context, c client.WithWatch, obj client.Object, patch client.Patch, opts ...client.PatchOption) error {
			w.trace("patch", obj)
			skip, err, lost := w.pre("patch", true)
			if skip {
				return err
			}
			w.writes++
			if e := c.Patch(ctx, obj, patch, opts...); e != nil {
				return e
			}
			if lost {
				return lostErr
			}
			return nil
		},
		SubResourcePatch: func(ctx context.Context, c client.Client, sub string, obj client.Object, patch client.Patch, opts ...client.SubResourcePatchOption) error {
			w.trace("patch/status", obj)
			skip, err, lost := w.pre("patch/status", true)
			if skip {
				return err
			}
			if e := c.SubResource(sub).Patch(ctx, obj, patch, opts...); e != nil {
				return e
			}
			if lost {
				return lostErr
			}
			return nil
		},
		SubResourceUpdate: func(ctx context.Context, c client.Client, sub string, obj client.Object, opts ...client.SubResourceUpdateOption) error {
			w.trace("update/status", obj)
			skip, err, lost := w.pre("update/status", true)
			if skip {
				return err
			}
			if e := c.SubResource(sub).Update(ctx, obj, opts...); e != nil {
				return e
			}
			if lost {
				return lostErr
			}
			return nil
		},
	}
	w.op = build(&funcs)
	w.newIncarnation()
	return w
}

func stampGVK(obj client.Object) {
	if _, isMeta := obj.(*metav1.PartialObjectMetadata); isMeta {
		return
	}
	if gvk, err := apiutil.GVKForObject(obj, OpScheme()); err == nil {
		obj.GetObjectKind().SetGroupVersionKind(gvk)
	}
}

const opConfigUID = "00000000-0000-0000-0000-00000000c0f1"

func (w *opWorld) putConfig(frags []string) {
	ctx := context.Background()
	cfg := &kaiv1.Config{}
	spec := kaiv1.ConfigSpec{}
	must(json.Unmarshal(fragsToJSON(opConfigFrags, frags), &spec))
	err := w.admin.Get(ctx, types.NamespacedName{Name: known_types.SingletonInstanceName}, cfg)
	if err != nil {
		w.cfgGen = 1
		cfg = &kaiv1.Config{ObjectMeta: metav1.ObjectMeta{Name: known_types.SingletonInstanceName, UID: opConfigUID, Generation: 1}, Spec: spec}
		must(w.admin.Create(ctx, cfg))
		return
	}
	if reflect.DeepEqual(cfg.Spec, spec) {
		return
	}
	w.cfgGen++
	cfg.Spec = spec
	cfg.Generation = w.cfgGen
	must(w.admin.Update(ctx, cfg))
}

func (w *opWorld) putShard(sh C20OpShard) {
	ctx := context.Background()
	spec := kaiv1.SchedulingShardSpec{}
	must(json.Unmarshal(fragsToJSON(opShardFrags, sh.Frags), &spec))
	cur := &kaiv1.SchedulingShard{}
	if err := w.admin.Get(ctx, types.NamespacedName{Name: sh.Name}, cur); err != nil {
		must(w.admin.Create(ctx, &kaiv1.SchedulingShard{ObjectMeta: metav1.ObjectMeta{Name: sh.Name, UID: types.UID("00000000-0000-0000-0000-5ha2d" + sh.Name), Generation: 1}, Spec: spec}))
		return
	}
	if reflect.DeepEqual(cur.Spec, spec) {
		return
	}
	cur.Spec = spec
	cur.Generation++
	must(w.admin.Update(ctx, cur))
}

func (w *opWorld) applyEnv(e C20OpEnv) {
	ctx := context.Background()
	ensure := func(obj client.Object, want bool) {
		cur := obj.DeepCopyObject().(client.Object)
		err := w.admin.Get(ctx, client.ObjectKeyFromObject(obj), cur)
		if want && err != nil {
			must(w.admin.Create(ctx, obj))
		} else if !want && err == nil {
			must(w.admin.Delete(ctx, cur))
		}
	}
	crd := func(name string) *apiextensionsv1.CustomResourceDefinition {
		return &apiextensionsv1.CustomResourceDefinition{TypeMeta: metav1.TypeMeta{Kind: "CustomResourceDefinition", APIVersion: "apiextensions.k8s.io/v1"}, ObjectMeta: metav1.ObjectMeta{Name: name}}
	}
	if !e.PromCRDs { // removing a CRD removes its objects
		pl := &monitoringv1.PrometheusList{}
		must(w.admin.List(ctx, pl))
		for i := range pl.Items {
			_ = w.admin.Delete(ctx, &pl.Items[i])
		}
		sl := &monitoringv1.ServiceMonitorList{}
		must(w.admin.List(ctx, sl))
		for i := range sl.Items {
			_ = w.admin.Delete(ctx, &sl.Items[i])
		}
	}
	ensure(crd("prometheuses.monitoring.coreos.com"), e.PromCRDs)
	ensure(crd("servicemonitors.monitoring.coreos.com"), e.PromCRDs)
	ensure(&corev1.Node{ObjectMeta: metav1.ObjectMeta{Name: "fake-gpu-node", Labels: map[string]string{"run.ai/fake.gpu": "true"}}}, e.FakeGPUNode)
	// cluster policy
	cp := &nvidiav1.ClusterPolicy{ObjectMeta: metav1.ObjectMeta{Name: "cluster-policy"}}
	ensure(cp, false)
	if e.ClusterPolicy != "" {
		t, f := true, false
		switch e.ClusterPolicy {
		case "cdi":
			cp.Labels = map[string]string{"app.kubernetes.io/version": "v25.10.0"}
			cp.Spec.CDI.Enabled = &t
		case "cdi-default":
			cp.Spec.CDI.Enabled, cp.Spec.CDI.Default = &t, &t
		case "nocdi":
			cp.Spec.CDI.Enabled = &f
		}
		ensure(cp, true)
	}
	if e.PreSecrets {
		for _, ns := range []string{"kai-scheduler", "kai-alt"} {
			for _, n := range opTLSSecrets {
				w.seedSecret(ns, n, []byte(fakePEM(ns+"/"+n)), []byte("fake-key "+ns+"/"+n))
			}
		}
	}
	qcrd := crd("queues.scheduling.run.ai")
	cur := &apiextensionsv1.CustomResourceDefinition{}
	err := w.admin.Get(ctx, client.ObjectKeyFromObject(qcrd), cur)
	switch e.QueueCRD {
	case "":
		if err == nil {
			must(w.admin.Delete(ctx, cur))
		}
	default:
		if e.QueueCRD == "conversion" {
			qcrd.Spec.Conversion = &apiextensionsv1.CustomResourceConversion{Strategy: apiextensionsv1.WebhookConverter}
		}
		if err != nil {
			must(w.admin.Create(ctx, qcrd))
		}
	}
}

var opTLSSecrets = []string{"kai-admission-webhook-tls-secret", "queue-webhook-tls-secret", "podgroup-webhook-tls-secret"}

func fakePEM(id string) string {
	return "-----BEGIN CERTIFICATE-----\n" + strings.Repeat(fmt.Sprintf("%-40s", id), 12) + "\n-----END CERTIFICATE-----\n"
}

func (w *opWorld) seedSecret(ns, name string, crt, key []byte) {
	s := &corev1.Secret{ObjectMeta: metav1.ObjectMeta{Namespace: ns, Name: name}}
	if err := w.admin.Get(context.Background(), client.ObjectKeyFromObject(s), s); err == nil {
		return
	}
	s.Data = map[string][]byte{"tls.crt": crt, "tls.key": key}
	must(w.admin.Create(context.Background(), s))
}

// operand objects (everything the operator may own), normalised for comparison
func (w *opWorld) dump() map[string]map[string]any {
	ctx := context.Background()
	out := map[string]map[string]any{}
	lists := []client.ObjectList{
		&appsv1.DeploymentList{}, &appsv1.DaemonSetList{}, &corev1.ServiceAccountList{}, &corev1.ConfigMapList{}, &corev1.ServiceList{},
		&corev1.SecretList{}, &admissionv1.MutatingWebhookConfigurationList{}, &admissionv1.ValidatingWebhookConfigurationList{},
		&apiextensionsv1.CustomResourceDefinitionList{}, &monitoringv1.PrometheusList{}, &monitoringv1.ServiceMonitorList{},
	}
	certOwner := map[string]string{}
	var all []map[string]any
	for _, l := range lists {
		must(w.admin.List(ctx, l))
		items := reflect.ValueOf(l).Elem().FieldByName("Items")
		for i := 0; i < items.Len(); i++ {
			it := items.Index(i)
			var o any
			if it.Kind() == reflect.Ptr {
				o = it.Interface()
			} else {
				o = it.Addr().Interface()
			}
			u, err := runtime.DefaultUnstructuredConverter.ToUnstructured(o)
			must(err)
			kind := strings.TrimSuffix(reflect.TypeOf(l).Elem().Name(), "List")
			u["kind"] = kind
			delete(u, "apiVersion")
			all = append(all, u)
			if kind == "Secret" {
				md := u["metadata"].(map[string]any)
				if data, ok := u["data"].(map[string]any); ok {
					for k, v := range data {
						certOwner[fmt.Sprint(v)] = fmt.Sprintf("<%s of secret %v/%v>", k, md["namespace"], md["name"])
					}
				}
			}
		}
	}
	var norm func(v any) any
	norm = func(v any) any {
		switch x := v.(type) {
		case map[string]any:
			for k, vv := range x {
				x[k] = norm(vv)
			}
			return x
		case []any:
			for i := range x {
				x[i] = norm(x[i])
			}
			return x
		case string:
			if o, ok := certOwner[x]; ok {
				return o
			}
			if len(x) > 300 && strings.Contains(x, "LS0tLS1CRUdJTi") { // base64 of "-----BEGIN"
				return "<certificate held by no secret>"
			}
			return x
		}
		return v
	}
	// a scheduler Deployment records the resourceVersion of its ConfigMap (restart on change): abstract it to "the
	// current version of that ConfigMap"; a stale version stays visible as a raw number
	cmRV := map[string]string{}
	for _, u := range all {
		if u["kind"] == "ConfigMap" {
			md := u["metadata"].(map[string]any)
			cmRV[fmt.Sprintf("%v/%v", md["namespace"], md["name"])] = fmt.Sprint(md["resourceVersion"])
		}
	}
	for _, u := range all {
		if u["kind"] != "Deployment" {
			continue
		}
		md := u["metadata"].(map[string]any)
		tmplMD, _ := nested(u, "spec", "template", "metadata").(map[string]any)
		ann, _ := tmplMD["annotations"].(map[string]any)
		if ann == nil || ann["configMapVersion"] == nil {
			continue
		}
		vols, _ := nested(u, "spec", "template", "spec", "volumes").([]any)
		for _, v := range vols {
			if name := nested(v, "configMap", "name"); name != nil {
				if rv, ok := cmRV[fmt.Sprintf("%v/%v", md["namespace"], name)]; ok && rv == fmt.Sprint(ann["configMapVersion"]) {
					ann["configMapVersion"] = fmt.Sprintf("<current resourceVersion of configmap %v>", name)
				}
			}
		}
	}
	for _, u := range all {
		md := u["metadata"].(map[string]any)
		for _, k := range []string{"resourceVersion", "uid", "creationTimestamp", "generation", "managedFields"} {
			delete(md, k)
		}
		delete(u, "status")
		key := fmt.Sprintf("%v/%v/%v", u["kind"], md["namespace"], md["name"])
		out[key] = norm(u).(map[string]any)
	}
	return out
}

// operandView drops what is environment rather than operand: TLS secrets left over from an earlier installation that
// nobody owns and no webhook configuration uses.
func operandView(d map[string]map[string]any) map[string]map[string]any {
	out := map[string]map[string]any{}
	blobs := map[string]string{}
	for k, o := range d {
		b, _ := json.Marshal(o)
		blobs[k] = string(b)
	}
	// a disabled Prometheus instance inside its documented retention period is kept on purpose until it expires, and
	// with it what the operand deploys next to it (its ServiceAccount and the ServiceMonitors it scrapes through)
	deprecated := false
	for k, o := range d {
		if strings.HasPrefix(k, "Prometheus/") {
			if ann, _ := o["metadata"].(map[string]any)["annotations"].(map[string]any); ann != nil && ann["kai/deprecation-timestamp"] != nil {
				deprecated = true
			}
		}
	}
	for k, o := range d {
		md := o["metadata"].(map[string]any)
		if deprecated && (strings.HasPrefix(k, "ServiceMonitor/") || (strings.HasPrefix(k, "ServiceAccount/") && md["name"] == "prometheus")) {
			continue
		}
		if refs, _ := md["ownerReferences"].([]any); len(refs) == 0 && strings.HasPrefix(k, "Secret/") {
			used := false
			ref := fmt.Sprintf("<tls.crt of secret %v/%v>", md["namespace"], md["name"])
			for k2, b2 := range blobs {
				if k2 != k && strings.Contains(b2, ref) {
					used = true
				}
			}
			if !used {
				continue
			}
		}
		if strings.HasPrefix(k, "Prometheus/") {
			if ann, _ := md["annotations"].(map[string]any); ann != nil && ann["kai/deprecation-timestamp"] != nil {
				continue // disabled instance inside its documented retention period: kept on purpose until it expires
			}
		}
		out[k] = o
	}
	return out
}

// withoutCRDs: CRDs are installed by others (environment); the operator only strips the conversion webhook from the queue
// CRD once, which a later configuration cannot "undo": they take part in the fixpoint check, not in the comparison
// with a fresh deployment.
func withoutCRDs(d map[string]map[string]any) map[string]map[string]any {
	out := map[string]map[string]any{}
	for k, v := range d {
		if !strings.HasPrefix(k, "CustomResourceDefinition/") {
			out[k] = v
		}
	}
	return out
}

func nested(v any, path ...string) any {
	for _, p := range path {
		m, ok := v.(map[string]any)
		if !ok {
			return nil
		}
		v = m[p]
	}
	return v
}

func dumpHash(d map[string]map[string]any) string {
	var parts []string
	for _, k := range sortedKeys(d) {
		b, _ := json.Marshal(d[k])
		parts = append(parts, k+string(b))
	}
	return hashStrings(parts)
}

func jsonDiff(path string, a, b any, out *[]string) {
	if len(*out) >= 6 {
		return
	}
	switch x := a.(type) {
	case map[string]any:
		y, ok := b.(map[string]any)
		if !ok {
			*out = append(*out, fmt.Sprintf("%s: %s vs %s", path, compact(a), compact(b)))
			return
		}
		keys := map[string]bool{}
		for k := range x {
			keys[k] = true
		}
		for k := range y {
			keys[k] = true
		}
		for _, k := range sortedKeys(keys) {
			jsonDiff(path+"."+k, x[k], y[k], out)
		}
	case []any:
		y, ok := b.([]any)
		if !ok || len(x) != len(y) {
			*out = append(*out, fmt.Sprintf("%s: %s vs %s", path, compact(a), compact(b)))
			return
		}
		for i := range x {
			jsonDiff(fmt.Sprintf("%s[%d]", path, i), x[i], y[i], out)
		}
	default:
		if !reflect.DeepEqual(a, b) {
			*out = append(*out, fmt.Sprintf("%s: %s vs %s", path, compact(a), compact(b)))
		}
	}
}

func compact(v any) string {
	b, _ := json.Marshal(v)
	if len(b) > 160 {
		return string(b[:160]) + "…"
	}
	return string(b)
}

func dumpDiff(a, b map[string]map[string]any) []string {
	var out []string
	keys := map[string]bool{}
	for k := range a {
		keys[k] = true
	}
	for k := range b {
		keys[k] = true
	}
	for _, k := range sortedKeys(keys) {
		switch {
		case a[k] == nil:
			out = append(out, k+": only in the second")
		case b[k] == nil:
			out = append(out, k+": only in the first")
		default:
			jsonDiff(k, any(a[k]), any(b[k]), &out)
		}
		if len(out) >= 6 {
			break
		}
	}
	return out
}

func (w *opWorld) reconcile(target string, failAt int, kind string) error {
	w.calls, w.failAt, w.faultKind, w.dead = 0, failAt, kind, false
	var err error
	func() {
		defer func() {
			if p := recover(); p != nil {
				w.res.Violations = append(w.res.Violations, Violation{Prop: "C20", Rule: "operator_panic", Detail: fmt.Sprintf("reconcile of %s panicked: %v\n%s", target, p, debug.Stack())})
				err = fmt.Errorf("panic")
			}
		}()
		if target == "config" {
			_, err = w.cfgRec.Reconcile(context.Background(), ctrl.Request{NamespacedName: types.NamespacedName{Name: known_types.SingletonInstanceName}})
		} else {
			_, err = w.shardRec.Reconcile(context.Background(), ctrl.Request{NamespacedName: types.NamespacedName{Name: target}})
		}
	}()
	w.res.Probes["c20op_reconciles"]++
	w.res.Probes["c20op_api_calls"] += w.calls
	if err != nil {
		w.res.Probes["c20op_reconcile_errors"]++
	}
	if w.dead {
		w.newIncarnation() // the process restarts with nothing but the API state
		w.res.Probes["c20op_restarts"]++
	}
	w.failAt, w.dead = 0, false
	return err
}

func (w *opWorld) shardNames() []string {
	l := &kaiv1.SchedulingShardList{}
	must(w.admin.List(context.Background(), l))
	var out []string
	for _, s := range l.Items {
		out = append(out, s.Name)
	}
	sort.Strings(out)
	return out
}

// settle reconciles everything without faults until the operand objects stop changing.
func (w *opWorld) settle(maxRounds int) (rounds int, stable bool, lastErr error) {
	for rounds = 1; rounds <= maxRounds; rounds++ {
		before := dumpHash(w.dump())
		lastErr = w.reconcile("config", 0, "")
		for _, s := range w.shardNames() {
			if e := w.reconcile(s, 0, ""); e != nil {
				lastErr = e
			}
		}
		if dumpHash(w.dump()) == before && lastErr == nil {
			return rounds, true, nil
		}
	}
	return maxRounds, false, lastErr
}

func runC20Op(t *testing.T, sc *C20OpScript) (res *Result) {
	res = &Result{Probes: map[string]int{}, Faults: map[string]int{}}
	func() {
		defer func() {
			if p := recover(); p != nil {
				if msg := fmt.Sprint(p); !strings.Contains(msg, "deadlock: main bubble goroutine has exited") {
					res.Panic = msg
				}
			}
		}()
		synctest.Test(t, func(t *testing.T) {
			defer func() {
				if p := recover(); p != nil {
					res.Panic = fmt.Sprintf("%v\n%s", p, debug.Stack())
				}
			}()
			c20OpBody(sc, res)
		})
	}()
	return
}

func c20OpBody(sc *C20OpScript, res *Result) {
	fail := func(rule, format string, args ...any) {
		if len(res.Violations) < 20 {
			res.Violations = append(res.Violations, Violation{Prop: "C20", Rule: rule, Detail: fmt.Sprintf(format, args...)})
		}
	}
	w := newOpWorld(res)
	frags := append([]string(nil), sc.Frags...)
	shards := map[string]C20OpShard{}
	env := sc.Env
	w.applyEnv(env)
	w.putConfig(frags)
	for _, sh := range sc.Shards {
		shards[sh.Name] = sh
		w.putShard(sh)
	}
	ctx := context.Background()
	for _, st := range sc.Steps {
		switch st.Kind {
		case "reconcile":
			_ = w.reconcile(st.Arg, st.N, st.Fault)
		case "edit_config":
			frags = toggle(frags, st.Arg)
			w.putConfig(frags)
			res.Probes["c20op_config_edits"]++
		case "shard_put":
			sh := shards[st.Arg]
			sh.Name = st.Arg
			if st.Val != "" {
				sh.Frags = toggle(sh.Frags, st.Val)
			}
			shards[st.Arg] = sh
			w.putShard(sh)
		case "shard_delete":
			cur := &kaiv1.SchedulingShard{}
			if err := w.admin.Get(ctx, types.NamespacedName{Name: st.Arg}, cur); err == nil {
				must(w.admin.Delete(ctx, cur))
				delete(shards, st.Arg)
				// the garbage collector removes what the shard owned
				w.gcOwnedBy(string(cur.UID))
				res.Probes["c20op_shard_deletes"]++
			}
		case "foreign_delete":
			d := w.dump()
			keys := sortedKeys(d)
			if len(keys) > 0 {
				k := keys[st.N%len(keys)]
				if strings.HasPrefix(k, "CustomResourceDefinition/") {
					continue // CRDs are environment, not operands
				}
				w.deleteByKey(k)
				res.Probes["c20op_foreign_deletes"]++
			}
		case "deploy_status":
			l := &appsv1.DeploymentList{}
			must(w.admin.List(ctx, l))
			if len(l.Items) > 0 {
				d := l.Items[st.N%len(l.Items)].DeepCopy()
				if st.Val == "available" && d.Spec.Replicas != nil {
					d.Status.UpdatedReplicas = *d.Spec.Replicas
					d.Status.Conditions = []appsv1.DeploymentCondition{{Type: appsv1.DeploymentAvailable, Status: corev1.ConditionTrue}}
				} else {
					d.Status = appsv1.DeploymentStatus{}
				}
				must(w.admin.Status().Update(ctx, d))
			}
		case "env":
			switch st.Arg {
			case "prom_crds":
				env.PromCRDs = !env.PromCRDs
			case "fake_gpu_node":
				env.FakeGPUNode = !env.FakeGPUNode
			case "cluster_policy":
				env.ClusterPolicy = st.Val
			}
			w.applyEnv(env)
		case "sleep":
			time.Sleep(time.Duration(st.N) * 24 * time.Hour)
		case "restart":
			w.newIncarnation()
			res.Probes["c20op_restarts"]++
		}
	}
	// faults stop
	rounds, stable, lastErr := w.settle(6)
	res.Probes[fmt.Sprintf("c20op_settle_rounds_%d", rounds)]++
	final := operandView(w.dump())
	if !stable {
		if lastErr != nil {
			// a configuration the operator rejects (e.g. invalid combination) is not a fixpoint question
			res.Probes["c20op_reconcile_keeps_failing"]++
			res.StateHash = dumpHash(final)
			res.NonTrivial = w.writes > 0
			res.Cycles = res.Probes["c20op_reconciles"]
			if !strings.Contains(lastErr.Error(), "simulated") {
				fail("operator_reconcile_keeps_failing", "without injected faults the reconcile keeps failing after 6 rounds: %v", lastErr)
			}
			return
		}
		before := w.dump()
		_ = w.reconcile("config", 0, "")
		for _, s := range w.shardNames() {
			_ = w.reconcile(s, 0, "")
		}
		fail("operator_no_fixpoint", "after 6 fault-free rounds of reconciling the Config and every shard the operand objects still change: %v", dumpDiff(before, w.dump()))
		return
	}
	// (1) fixpoint: one more reconcile of everything changes no operand object and issues no operand write
	wBefore := w.writes
	_ = w.reconcile("config", 0, "")
	for _, s := range w.shardNames() {
		_ = w.reconcile(s, 0, "")
	}
	after := operandView(w.dump())
	if d := dumpDiff(final, after); len(d) > 0 {
		fail("operator_not_idempotent", "reconciling again without change modified operand objects: %v", d)
	} else if w.writes != wBefore {
		// the objects are unchanged (what the property states); the redundant write calls are an observation only
		res.Probes["c20op_redundant_writes_at_fixpoint"] += w.writes - wBefore
	}
	// (3) internal consistency
	for _, k := range sortedKeys(final) {
		o := final[k]
		b, _ := json.Marshal(o)
		if strings.Contains(string(b), "<certificate held by no secret>") {
			fail("operator_webhook_ca_without_secret", "%s carries a CA bundle that is not the certificate of any secret", k)
		}
		if strings.HasPrefix(k, "CustomResourceDefinition/") {
			continue
		}
		md := o["metadata"].(map[string]any)
		if refs, _ := md["ownerReferences"].([]any); len(refs) != 1 {
			fail("operator_object_without_owner", "%s has %d owner references, expected exactly the Config or its shard", k, len(refs))
		}
	}
	// (2) determined only by the configuration: an uninterrupted deployment of the final configuration on a fresh
	// cluster yields the same operand objects
	fres := &Result{Probes: map[string]int{}, Faults: map[string]int{}}
	fw := newOpWorld(fres)
	fw.applyEnv(env)
	for k, o := range w.dumpRaw() {
		if sec, ok := o.(*corev1.Secret); ok && strings.HasPrefix(k, "Secret/") && len(sec.OwnerReferences) > 0 && sec.Data["tls.crt"] != nil {
			fw.seedSecret(sec.Namespace, sec.Name, sec.Data["tls.crt"], sec.Data["tls.key"]) // generated bytes are excluded from the comparison anyway
		}
	}
	fw.putConfig(frags)
	for _, n := range sortedKeys(shards) {
		fw.putShard(shards[n])
	}
	_, fstable, ferr := fw.settle(6)
	if !fstable {
		if ferr == nil {
			fail("operator_no_fixpoint", "a fresh deployment of the final configuration does not reach a fixpoint in 6 rounds")
		}
	} else if d := dumpDiff(withoutCRDs(final), withoutCRDs(operandView(fw.dump()))); len(d) > 0 {
		rule := "operator_history_dependent"
		onlyPullSecrets := true
		for _, x := range d {
			if !strings.Contains(x, "ServiceAccount/kai-resource-reservation/") || !strings.Contains(x, ".imagePullSecrets") {
				onlyPullSecrets = false
			}
		}
		if onlyPullSecrets {
			// the resource-reservation ServiceAccount merges the configured pull secrets into what the object already
			// carries and never removes one (open finding)
			rule += "_reservation_sa_pull_secrets"
		}
		fail(rule, "the operand objects differ from a fresh deployment of the same configuration (first = this history, second = fresh): %v", d)
	}
	res.Probes["c20op_fresh_compared"]++
	res.NonTrivial = w.writes > 0
	res.Cycles = res.Probes["c20op_reconciles"]
	res.StateHash = dumpHash(final)
}

func (w *opWorld) typedFor(kind string) client.Object {
	switch kind {
	case "Deployment":
		return &appsv1.Deployment{}
	case "DaemonSet":
		return &appsv1.DaemonSet{}
	case "ServiceAccount":
		return &corev1.ServiceAccount{}
	case "ConfigMap":
		return &corev1.ConfigMap{}
	case "Service":
		return &corev1.Service{}
	case "Secret":
		return &corev1.Secret{}
	case "MutatingWebhookConfiguration":
		return &admissionv1.MutatingWebhookConfiguration{}
	case "ValidatingWebhookConfiguration":
		return &admissionv1.ValidatingWebhookConfiguration{}
	case "Prometheus":
		return &monitoringv1.Prometheus{}
	case "ServiceMonitor":
		return &monitoringv1.ServiceMonitor{}
	case "CustomResourceDefinition":
		return &apiextensionsv1.CustomResourceDefinition{}
	}
	return nil
}

func (w *opWorld) deleteByKey(k string) {
	parts := strings.SplitN(k, "/", 3)
	obj := w.typedFor(parts[0])
	if obj == nil {
		return
	}
	ns := parts[1]
	if ns == "<nil>" {
		ns = ""
	}
	if err := w.admin.Get(context.Background(), types.NamespacedName{Namespace: ns, Name: parts[2]}, obj); err == nil {
		_ = w.admin.Delete(context.Background(), obj)
	}
}

func (w *opWorld) gcOwnedBy(uid string) {
	for k, o := range w.dumpRaw() {
		for _, r := range o.GetOwnerReferences() {
			if string(r.UID) == uid {
				w.deleteByKey(k)
			}
		}
	}
}

func (w *opWorld) dumpRaw() map[string]client.Object {
	out := map[string]client.Object{}
	for k := range w.dump() {
		parts := strings.SplitN(k, "/", 3)
		obj := w.typedFor(parts[0])
		ns := parts[1]
		if ns == "<nil>" {
			ns = ""
		}
		if obj != nil && w.admin.Get(context.Background(), types.NamespacedName{Namespace: ns, Name: parts[2]}, obj) == nil {
			out[k] = obj
		}
	}
	return out
}
