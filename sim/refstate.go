package kaisim

// CycleState: what the API store says at the start of a scheduling cycle, parsed by the
// reference model (independent of the scheduler's snapshot code).

import (
	"sort"
	"time"

	corev1 "k8s.io/api/core/v1"

	bindv1alpha2 "github.com/NVIDIA/KAI-scheduler/pkg/apis/scheduling/v1alpha2"
)

type RefPod struct {
	Name      string
	Group     string
	SubGroup  string // "" = default pod set
	Node      string // spec.nodeName or selected node of a live BindRequest
	Active    bool   // occupies capacity as a member of its gang: bound/binding/running and not terminating
	Pending   bool   // not bound, no live BindRequest, not terminating, not gated
	Deleting  bool
	Demand    Demand
	Pod       *corev1.Pod
	HasLiveBR bool
}

type RefPodSet struct {
	Name string
	Min  int32
	Pods []*RefPod
}

type RefGroup struct {
	Name        string
	Queue       string
	Priority    int32
	Preemptible bool
	Created     time.Time
	LastStart   *time.Time
	MinMember   int32
	Sets        map[string]*RefPodSet
	Pods        []*RefPod
	Template    string // canonical description of pod template + gang shape (C16)
}

type RefQueue struct {
	Name      string
	Parent    string
	Children  []string
	Priority  int
	GPU       QRes
	CPU       QRes // millicpu
	Mem       QRes // bytes
	PreemptMR *time.Duration
	ReclaimMR *time.Duration
}

type CycleState struct {
	Now    time.Time
	Pods   map[string]*RefPod
	Groups map[string]*RefGroup
	Queues map[string]*RefQueue
	Nodes  map[string]*corev1.Node
}

func (g *RefGroup) ActiveCount(set string) int {
	n := 0
	for _, p := range g.Sets[set].Pods {
		if p.Active {
			n++
		}
	}
	return n
}

func CaptureState(api *SimAPI) *CycleState {
	cs := &CycleState{Now: time.Now(), Pods: map[string]*RefPod{}, Groups: map[string]*RefGroup{}, Queues: map[string]*RefQueue{}, Nodes: map[string]*corev1.Node{}}
	for _, n := range api.Nodes() {
		cs.Nodes[n.Name] = n
	}
	pcs := map[string]int32{}
	defaultPrio := int32(50)
	for _, pc := range api.PriorityClasses() {
		pcs[pc.Name] = pc.Value
		if pc.GlobalDefault {
			defaultPrio = pc.Value
		}
	}
	for _, q := range api.Queues() {
		rq := &RefQueue{Name: q.Name, Parent: q.Spec.ParentQueue, Priority: 100}
		if q.Spec.Priority != nil {
			rq.Priority = *q.Spec.Priority
		}
		if r := q.Spec.Resources; r != nil {
			rq.GPU = QRes{r.GPU.Quota, r.GPU.Limit, r.GPU.OverQuotaWeight}
			rq.CPU = QRes{r.CPU.Quota, r.CPU.Limit, r.CPU.OverQuotaWeight}
			mb := func(v float64) float64 {
				if v < 0 {
					return -1
				}
				return v * 1000 * 1000
			}
			rq.Mem = QRes{mb(r.Memory.Quota), mb(r.Memory.Limit), r.Memory.OverQuotaWeight}
		}
		if q.Spec.PreemptMinRuntime != nil {
			d := q.Spec.PreemptMinRuntime.Duration
			rq.PreemptMR = &d
		}
		if q.Spec.ReclaimMinRuntime != nil {
			d := q.Spec.ReclaimMinRuntime.Duration
			rq.ReclaimMR = &d
		}
		cs.Queues[q.Name] = rq
	}
	for _, q := range cs.Queues {
		if p, ok := cs.Queues[q.Parent]; ok {
			p.Children = append(p.Children, q.Name)
		}
	}
	for _, q := range cs.Queues {
		sort.Strings(q.Children)
	}
	for _, pg := range api.PodGroups() {
		g := &RefGroup{Name: pg.Name, Queue: pg.Spec.Queue, Created: pg.CreationTimestamp.Time, MinMember: pg.Spec.MinMember, Sets: map[string]*RefPodSet{}}
		g.Priority = defaultPrio
		if v, ok := pcs[pg.Spec.PriorityClassName]; ok {
			g.Priority = v
		}
		switch string(pg.Spec.Preemptibility) {
		case "preemptible":
			g.Preemptible = true
		case "non-preemptible":
			g.Preemptible = false
		default:
			g.Preemptible = g.Priority < 100
		}
		if ts := pg.Annotations["kai.scheduler/last-start-timestamp"]; ts != "" {
			if t, err := time.Parse(time.RFC3339, ts); err == nil {
				g.LastStart = &t
			}
		}
		if len(pg.Spec.SubGroups) == 0 {
			g.Sets[""] = &RefPodSet{Name: "", Min: max(pg.Spec.MinMember, 1)}
		}
		isParent := map[string]bool{}
		for _, sg := range pg.Spec.SubGroups {
			if sg.Parent != nil {
				isParent[*sg.Parent] = true
			}
		}
		for _, sg := range pg.Spec.SubGroups {
			if isParent[sg.Name] {
				continue // a sub-group set (inner node of the hierarchy): it holds no pods itself
			}
			g.Sets[sg.Name] = &RefPodSet{Name: sg.Name, Min: sg.MinMember}
		}
		cs.Groups[pg.Name] = g
	}
	live := map[string]*bindv1alpha2.BindRequest{}
	for _, br := range api.BindRequests() {
		if !BRTerminallyFailed(br) {
			live[br.Namespace+"/"+br.Spec.PodName] = br
		}
	}
	for _, p := range api.Pods() {
		if IsReservationPod(p) {
			continue
		}
		rp := &RefPod{Name: p.Name, Group: p.Annotations[PGAnnotation], SubGroup: p.Labels[SubGroupLabel], Node: p.Spec.NodeName,
			Deleting: p.DeletionTimestamp != nil, Demand: PodDemand(p), Pod: p}
		if br := live[p.Namespace+"/"+p.Name]; br != nil && br.Status.Phase != bindv1alpha2.BindRequestPhaseSucceeded {
			rp.HasLiveBR = true
			if rp.Node == "" {
				rp.Node = br.Spec.SelectedNode
			}
		}
		term := podTerminated(p)
		rp.Active = !term && !rp.Deleting && rp.Node != ""
		rp.Pending = !term && !rp.Deleting && rp.Node == "" && len(p.Spec.SchedulingGates) == 0
		cs.Pods[p.Name] = rp
		if g := cs.Groups[rp.Group]; g != nil {
			g.Pods = append(g.Pods, rp)
			if set := g.Sets[rp.SubGroup]; set != nil {
				set.Pods = append(set.Pods, rp)
			}
		}
	}
	return cs
}
