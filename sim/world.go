package kaisim

// World specification (what a script describes) and its translation into API objects.
// Everything the scheduler sees is built from these API objects; nothing here imports the
// scheduler's own info types.

import (
	"fmt"
	"sort"
	"strconv"
	"time"

	corev1 "k8s.io/api/core/v1"
	schedulingv1 "k8s.io/api/scheduling/v1"
	"k8s.io/apimachinery/pkg/api/resource"
	metav1 "k8s.io/apimachinery/pkg/apis/meta/v1"
	"k8s.io/apimachinery/pkg/runtime"
	"k8s.io/apimachinery/pkg/types"
	"k8s.io/utils/ptr"

	kaiv1alpha1 "github.com/NVIDIA/KAI-scheduler/pkg/apis/kai/v1alpha1"
	bindv1alpha2 "github.com/NVIDIA/KAI-scheduler/pkg/apis/scheduling/v1alpha2"
	schedv2 "github.com/NVIDIA/KAI-scheduler/pkg/apis/scheduling/v2"
	schedv2alpha2 "github.com/NVIDIA/KAI-scheduler/pkg/apis/scheduling/v2alpha2"
)

const (
	NS             = "ws"
	ReservationNS  = "kai-resource-reservation"
	SchedulerName  = "kai-scheduler"
	GPUResource    = "nvidia.com/gpu"
	GPUGroupLabel  = "runai-gpu-group"
	GPUGroupPrefix = "runai-gpu-group/"
	PGAnnotation   = "pod-group-name"
	SubGroupLabel  = "kai.scheduler/subgroup-name"
	NodePoolKey    = "kai.scheduler/node-pool"
	ReservationApp = "kai-resource-reservation"
	GPUIndexAnnot  = "run.ai/reserve_for_gpu_index"
)

var Epoch = time.Date(2000, 1, 1, 0, 0, 0, 0, time.UTC) // synctest bubble start

type TaintSpec struct {
	Key    string `json:"key"`
	Value  string `json:"value,omitempty"`
	Effect string `json:"effect"`
}

type NodeSpec struct {
	Name          string            `json:"name"`
	CPUm          int64             `json:"cpu_m"`
	MemMi         int64             `json:"mem_mi"`
	Pods          int64             `json:"pods"`
	GPUs          int64             `json:"gpus"`
	GPUMemMi      int64             `json:"gpu_mem_mi,omitempty"` // nvidia.com/gpu.memory label; 0 = no label
	MIG           map[string]int64  `json:"mig,omitempty"`        // extended resource name -> count
	MigStrategy   string            `json:"mig_strategy,omitempty"`
	Labels        map[string]string `json:"labels,omitempty"`
	Taints        []TaintSpec       `json:"taints,omitempty"`
	Unschedulable bool              `json:"unschedulable,omitempty"`
	NotReady      bool              `json:"not_ready,omitempty"`
	DRADevices    int               `json:"dra_devices,omitempty"` // devices published in the node's ResourceSlice
}

type QRes struct {
	Quota  float64 `json:"quota"`
	Limit  float64 `json:"limit"`
	Weight float64 `json:"weight"`
}

type QueueSpec struct {
	Name              string `json:"name"`
	Parent            string `json:"parent,omitempty"`
	Priority          *int   `json:"priority,omitempty"`
	GPU               QRes   `json:"gpu"`
	CPU               QRes   `json:"cpu"` // millicpu units as the API defines
	Mem               QRes   `json:"mem"` // megabytes units as the API defines
	PreemptMinRuntime string `json:"preempt_min_runtime,omitempty"`
	ReclaimMinRuntime string `json:"reclaim_min_runtime,omitempty"`
	NilResources      bool   `json:"nil_resources,omitempty"`
	AgeH              int    `json:"age_h,omitempty"` // creation = Epoch - 24h - AgeH hours (queues of different age)
}

type TolerationSpec struct {
	Key      string `json:"key,omitempty"`
	Operator string `json:"op,omitempty"`
	Value    string `json:"value,omitempty"`
	Effect   string `json:"effect,omitempty"`
}

type AffinityTerm struct {
	Key    string   `json:"key"`
	Op     string   `json:"op"`
	Values []string `json:"values,omitempty"`
}

type PodAffSpec struct {
	Anti        bool              `json:"anti"`
	TopologyKey string            `json:"topology_key"`
	MatchLabels map[string]string `json:"match_labels"`
}

// PodSpec: one pod of a workload. State: pending | bound | running | terminating | succeeded | failed
type PodSpec struct {
	Name         string            `json:"name"`
	SubGroup     string            `json:"sub_group,omitempty"`
	CPUm         int64             `json:"cpu_m"`
	MemMi        int64             `json:"mem_mi"`
	// pod overhead (RuntimeClass): counted on top of the containers' requests
	OverheadCPUm  int64            `json:"overhead_cpu_m,omitempty"`
	OverheadMemMi int64            `json:"overhead_mem_mi,omitempty"`
	GPUs         int64             `json:"gpus,omitempty"`
	Fraction     string            `json:"fraction,omitempty"`    // gpu-fraction annotation value
	GPUMemMi     int64             `json:"gpu_mem_mi,omitempty"`  // gpu-memory annotation
	NumDevices   int64             `json:"num_devices,omitempty"` // gpu-fraction-num-devices
	MIG          map[string]int64  `json:"mig,omitempty"`         // extended MIG resources requested
	State        string            `json:"state"`
	Node         string            `json:"node,omitempty"`
	GPUGroups    []string          `json:"gpu_groups,omitempty"`
	NodeSelector map[string]string `json:"node_selector,omitempty"`
	NodeAffinity []AffinityTerm    `json:"node_affinity,omitempty"` // one required term, ANDed expressions
	Tolerations  []TolerationSpec  `json:"tolerations,omitempty"`
	PodAffinity  []PodAffSpec      `json:"pod_affinity,omitempty"`
	Labels       map[string]string `json:"labels,omitempty"`
	ExtraAnnot   map[string]string `json:"extra_annot,omitempty"`
	OtherSched   bool              `json:"other_sched,omitempty"` // pod of another scheduler (no pod group)
	NoBindRequest bool             `json:"no_bind_request,omitempty"` // placed pod whose (succeeded) BindRequest no longer exists
	AgeSec       int64             `json:"age_s,omitempty"`       // creation = Epoch - AgeSec
	Claims       []ClaimRef        `json:"claims,omitempty"`      // DRA resource claims
}

type TopoConstraint struct {
	Topology  string `json:"topology,omitempty"`
	Required  string `json:"required,omitempty"`
	Preferred string `json:"preferred,omitempty"`
}

type SubGroupSpec struct {
	Name      string          `json:"name"`
	Parent    string          `json:"parent,omitempty"`
	MinMember int32           `json:"min_member"`
	Topo      *TopoConstraint `json:"topo,omitempty"`
}

type WorkloadSpec struct {
	Name           string          `json:"name"`
	Queue          string          `json:"queue"`
	PriorityClass  string          `json:"priority_class,omitempty"`
	Preemptibility string          `json:"preemptibility,omitempty"`
	MinMember      int32           `json:"min_member"`
	SubGroups      []SubGroupSpec  `json:"sub_groups,omitempty"`
	Topo           *TopoConstraint `json:"topo,omitempty"`
	Pods           []PodSpec       `json:"pods"`
	AgeSec         int64           `json:"age_s"`                      // pod group creation = Epoch - AgeSec
	LastStartAgo   *int64          `json:"last_start_ago_s,omitempty"` // last-start-timestamp annotation = Epoch - value
	BackoffLimit   *int32          `json:"backoff,omitempty"`
}

type PriorityClassSpec struct {
	Name          string `json:"name"`
	Value         int32  `json:"value"`
	GlobalDefault bool   `json:"global_default,omitempty"`
}

type TopologySpec struct {
	Name   string   `json:"name"`
	Levels []string `json:"levels"` // node label keys, coarse to fine
}

type World struct {
	Nodes           []NodeSpec          `json:"nodes"`
	Queues          []QueueSpec         `json:"queues"`
	PriorityClasses []PriorityClassSpec `json:"priority_classes,omitempty"`
	Topologies      []TopologySpec      `json:"topologies,omitempty"`
	NodePool        string              `json:"node_pool,omitempty"` // queues and pod groups carry this node-pool label value
	Workloads       []WorkloadSpec      `json:"workloads"`
	SharedClaims    []SharedClaimSpec   `json:"shared_claims,omitempty"`
}

func qty(v int64) resource.Quantity { return *resource.NewQuantity(v, resource.DecimalSI) }
func mi(v int64) resource.Quantity  { return *resource.NewQuantity(v*1024*1024, resource.BinarySI) }
func milli(v int64) resource.Quantity {
	return *resource.NewMilliQuantity(v, resource.DecimalSI)
}

func BuildNode(n NodeSpec) *corev1.Node {
	labels := map[string]string{"kubernetes.io/hostname": n.Name}
	for k, v := range n.Labels {
		labels[k] = v
	}
	if n.GPUMemMi > 0 {
		labels["nvidia.com/gpu.memory"] = strconv.FormatInt(n.GPUMemMi, 10)
	}
	if n.GPUs > 0 {
		labels["nvidia.com/gpu.count"] = strconv.FormatInt(n.GPUs, 10)
	}
	if n.MigStrategy != "" {
		labels["nvidia.com/mig.strategy"] = n.MigStrategy
	}
	alloc := corev1.ResourceList{
		corev1.ResourceCPU:    milli(n.CPUm),
		corev1.ResourceMemory: mi(n.MemMi),
		corev1.ResourcePods:   qty(n.Pods),
	}
	if n.GPUs > 0 {
		alloc[GPUResource] = qty(n.GPUs)
	}
	for k, v := range n.MIG {
		alloc[corev1.ResourceName(k)] = qty(v)
	}
	ready := corev1.ConditionTrue
	if n.NotReady {
		ready = corev1.ConditionFalse
	}
	node := &corev1.Node{
		TypeMeta:   metav1.TypeMeta{APIVersion: "v1", Kind: "Node"},
		ObjectMeta: metav1.ObjectMeta{Name: n.Name, Labels: labels, UID: types.UID("node-" + n.Name)},
		Spec:       corev1.NodeSpec{Unschedulable: n.Unschedulable},
		Status: corev1.NodeStatus{
			Capacity:    alloc.DeepCopy(),
			Allocatable: alloc,
			Conditions:  []corev1.NodeCondition{{Type: corev1.NodeReady, Status: ready}},
		},
	}
	for _, t := range n.Taints {
		node.Spec.Taints = append(node.Spec.Taints, corev1.Taint{Key: t.Key, Value: t.Value, Effect: corev1.TaintEffect(t.Effect)})
	}
	return node
}

func BuildQueue(q QueueSpec) *schedv2.Queue {
	obj := &schedv2.Queue{
		TypeMeta:   metav1.TypeMeta{APIVersion: "scheduling.run.ai/v2", Kind: "Queue"},
		ObjectMeta: metav1.ObjectMeta{Name: q.Name, UID: types.UID("queue-" + q.Name), CreationTimestamp: metav1.NewTime(Epoch.Add(-24*time.Hour - time.Duration(q.AgeH)*time.Hour))},
		Spec: schedv2.QueueSpec{
			ParentQueue: q.Parent,
			Priority:    q.Priority,
		},
	}
	if !q.NilResources {
		obj.Spec.Resources = &schedv2.QueueResources{
			GPU:    schedv2.QueueResource{Quota: q.GPU.Quota, Limit: q.GPU.Limit, OverQuotaWeight: q.GPU.Weight},
			CPU:    schedv2.QueueResource{Quota: q.CPU.Quota, Limit: q.CPU.Limit, OverQuotaWeight: q.CPU.Weight},
			Memory: schedv2.QueueResource{Quota: q.Mem.Quota, Limit: q.Mem.Limit, OverQuotaWeight: q.Mem.Weight},
		}
	}
	if q.PreemptMinRuntime != "" {
		if d, err := time.ParseDuration(q.PreemptMinRuntime); err == nil {
			obj.Spec.PreemptMinRuntime = &metav1.Duration{Duration: d}
		}
	}
	if q.ReclaimMinRuntime != "" {
		if d, err := time.ParseDuration(q.ReclaimMinRuntime); err == nil {
			obj.Spec.ReclaimMinRuntime = &metav1.Duration{Duration: d}
		}
	}
	return obj
}

func topoToAPI(t *TopoConstraint) schedv2alpha2.TopologyConstraint {
	if t == nil {
		return schedv2alpha2.TopologyConstraint{}
	}
	return schedv2alpha2.TopologyConstraint{
		Topology:               t.Topology,
		RequiredTopologyLevel:  t.Required,
		PreferredTopologyLevel: t.Preferred,
	}
}

func BuildPodGroup(w WorkloadSpec) *schedv2alpha2.PodGroup {
	pg := &schedv2alpha2.PodGroup{
		TypeMeta: metav1.TypeMeta{APIVersion: "scheduling.run.ai/v2alpha2", Kind: "PodGroup"},
		ObjectMeta: metav1.ObjectMeta{
			Name: w.Name, Namespace: NS, UID: types.UID("pg-" + w.Name),
			CreationTimestamp: metav1.NewTime(Epoch.Add(-time.Duration(w.AgeSec) * time.Second)),
			Labels:            map[string]string{"kai.scheduler/queue": w.Queue},
			Annotations:       map[string]string{},
		},
		Spec: schedv2alpha2.PodGroupSpec{
			Queue:              w.Queue,
			MinMember:          w.MinMember,
			PriorityClassName:  w.PriorityClass,
			Preemptibility:     schedv2alpha2.Preemptibility(w.Preemptibility),
			MarkUnschedulable:  ptr.To(true),
			TopologyConstraint: topoToAPI(w.Topo),
		},
	}
	for _, sg := range w.SubGroups {
		s := schedv2alpha2.SubGroup{Name: sg.Name, MinMember: sg.MinMember}
		if sg.Parent != "" {
			s.Parent = ptr.To(sg.Parent)
		}
		if sg.Topo != nil {
			tc := topoToAPI(sg.Topo)
			s.TopologyConstraint = &tc
		}
		pg.Spec.SubGroups = append(pg.Spec.SubGroups, s)
	}
	if w.LastStartAgo != nil {
		pg.Annotations["kai.scheduler/last-start-timestamp"] = Epoch.Add(-time.Duration(*w.LastStartAgo) * time.Second).Format(time.RFC3339)
	}
	return pg
}

func BuildPod(w *WorkloadSpec, p PodSpec) *corev1.Pod {
	req := corev1.ResourceList{}
	if p.CPUm > 0 {
		req[corev1.ResourceCPU] = milli(p.CPUm)
	}
	if p.MemMi > 0 {
		req[corev1.ResourceMemory] = mi(p.MemMi)
	}
	if p.GPUs > 0 {
		req[GPUResource] = qty(p.GPUs)
	}
	for k, v := range p.MIG {
		req[corev1.ResourceName(k)] = qty(v)
	}
	labels := map[string]string{}
	for k, v := range p.Labels {
		labels[k] = v
	}
	annots := map[string]string{}
	for k, v := range p.ExtraAnnot {
		annots[k] = v
	}
	age := p.AgeSec
	if w != nil && !p.OtherSched {
		annots[PGAnnotation] = w.Name
		labels["wl"] = w.Name
		if p.SubGroup != "" {
			labels[SubGroupLabel] = p.SubGroup
		}
		if age == 0 {
			age = w.AgeSec
		}
	}
	if p.Fraction != "" {
		annots["gpu-fraction"] = p.Fraction
	}
	if p.GPUMemMi > 0 {
		annots["gpu-memory"] = strconv.FormatInt(p.GPUMemMi, 10)
	}
	if p.NumDevices > 0 {
		annots["gpu-fraction-num-devices"] = strconv.FormatInt(p.NumDevices, 10)
	}
	shared := p.Fraction != "" || p.GPUMemMi > 0
	if shared {
		annots["runai/shared-gpu-configmap"] = p.Name + "-shared-gpu" // what admission leaves on a GPU-sharing pod
	}
	if p.Node != "" && shared && len(p.GPUGroups) > 0 {
		if p.NumDevices > 0 {
			for _, g := range p.GPUGroups {
				labels[GPUGroupPrefix+g] = g
			}
		} else {
			labels[GPUGroupLabel] = p.GPUGroups[0]
		}
		annots["received-resource-type"] = "Fraction"
	} else if p.Node != "" && (p.GPUs > 0) {
		annots["received-resource-type"] = "Regular"
	}
	schedName := SchedulerName
	if p.OtherSched {
		schedName = "default-scheduler"
	}
	pod := &corev1.Pod{
		TypeMeta: metav1.TypeMeta{APIVersion: "v1", Kind: "Pod"},
		ObjectMeta: metav1.ObjectMeta{
			Name: p.Name, Namespace: NS, UID: types.UID("pod-" + p.Name),
			Labels: labels, Annotations: annots,
			CreationTimestamp: metav1.NewTime(Epoch.Add(-time.Duration(age) * time.Second)),
		},
		Spec: corev1.PodSpec{
			SchedulerName: schedName,
			NodeName:      p.Node,
			NodeSelector:  p.NodeSelector,
			Containers: []corev1.Container{{
				Name: "main", Image: "img",
				Resources: corev1.ResourceRequirements{Requests: req, Limits: req.DeepCopy()},
			}},
		},
	}
	if p.OverheadCPUm > 0 || p.OverheadMemMi > 0 {
		pod.Spec.Overhead = corev1.ResourceList{}
		if p.OverheadCPUm > 0 {
			pod.Spec.Overhead[corev1.ResourceCPU] = milli(p.OverheadCPUm)
		}
		if p.OverheadMemMi > 0 {
			pod.Spec.Overhead[corev1.ResourceMemory] = mi(p.OverheadMemMi)
		}
	}
	for _, t := range p.Tolerations {
		pod.Spec.Tolerations = append(pod.Spec.Tolerations, corev1.Toleration{
			Key: t.Key, Operator: corev1.TolerationOperator(t.Operator), Value: t.Value, Effect: corev1.TaintEffect(t.Effect)})
	}
	if len(p.NodeAffinity) > 0 || len(p.PodAffinity) > 0 {
		pod.Spec.Affinity = &corev1.Affinity{}
	}
	if len(p.NodeAffinity) > 0 {
		term := corev1.NodeSelectorTerm{}
		for _, a := range p.NodeAffinity {
			term.MatchExpressions = append(term.MatchExpressions, corev1.NodeSelectorRequirement{
				Key: a.Key, Operator: corev1.NodeSelectorOperator(a.Op), Values: a.Values})
		}
		pod.Spec.Affinity.NodeAffinity = &corev1.NodeAffinity{
			RequiredDuringSchedulingIgnoredDuringExecution: &corev1.NodeSelector{NodeSelectorTerms: []corev1.NodeSelectorTerm{term}},
		}
	}
	for _, a := range p.PodAffinity {
		t := corev1.PodAffinityTerm{
			TopologyKey:   a.TopologyKey,
			LabelSelector: &metav1.LabelSelector{MatchLabels: a.MatchLabels},
		}
		if a.Anti {
			if pod.Spec.Affinity.PodAntiAffinity == nil {
				pod.Spec.Affinity.PodAntiAffinity = &corev1.PodAntiAffinity{}
			}
			pod.Spec.Affinity.PodAntiAffinity.RequiredDuringSchedulingIgnoredDuringExecution = append(
				pod.Spec.Affinity.PodAntiAffinity.RequiredDuringSchedulingIgnoredDuringExecution, t)
		} else {
			if pod.Spec.Affinity.PodAffinity == nil {
				pod.Spec.Affinity.PodAffinity = &corev1.PodAffinity{}
			}
			pod.Spec.Affinity.PodAffinity.RequiredDuringSchedulingIgnoredDuringExecution = append(
				pod.Spec.Affinity.PodAffinity.RequiredDuringSchedulingIgnoredDuringExecution, t)
		}
	}
	switch p.State {
	case "pending":
		pod.Status.Phase = corev1.PodPending
		pod.Spec.NodeName = ""
	case "bound":
		pod.Status.Phase = corev1.PodPending
		pod.Status.Conditions = []corev1.PodCondition{{Type: corev1.PodScheduled, Status: corev1.ConditionTrue}}
	case "running":
		pod.Status.Phase = corev1.PodRunning
		pod.Status.Conditions = []corev1.PodCondition{{Type: corev1.PodScheduled, Status: corev1.ConditionTrue}}
	case "terminating":
		pod.Status.Phase = corev1.PodRunning
		pod.Status.Conditions = []corev1.PodCondition{{Type: corev1.PodScheduled, Status: corev1.ConditionTrue}}
		pod.DeletionTimestamp = ptr.To(metav1.NewTime(Epoch))
		pod.DeletionGracePeriodSeconds = ptr.To(int64(30))
	case "succeeded":
		pod.Status.Phase = corev1.PodSucceeded
	case "failed":
		pod.Status.Phase = corev1.PodFailed
	default:
		panic("unknown pod state " + p.State)
	}
	addPodClaims(pod, p)
	return pod
}

func BuildReservationPod(node, group string, index int) *corev1.Pod {
	name := fmt.Sprintf("gpu-reservation-%s-%s", node, group)
	return &corev1.Pod{
		TypeMeta: metav1.TypeMeta{APIVersion: "v1", Kind: "Pod"},
		ObjectMeta: metav1.ObjectMeta{
			Name: name, Namespace: ReservationNS, UID: types.UID("pod-" + name),
			Labels:            map[string]string{"app": ReservationApp, GPUGroupLabel: group},
			Annotations:       map[string]string{GPUIndexAnnot: strconv.Itoa(index)},
			CreationTimestamp: metav1.NewTime(Epoch.Add(-time.Hour)),
		},
		Spec: corev1.PodSpec{
			NodeName: node,
			Containers: []corev1.Container{{
				Name: "resource-reservation", Image: "img",
				Resources: corev1.ResourceRequirements{
					Requests: corev1.ResourceList{GPUResource: qty(1)},
					Limits:   corev1.ResourceList{GPUResource: qty(1)},
				},
			}},
		},
		Status: corev1.PodStatus{Phase: corev1.PodRunning,
			Conditions: []corev1.PodCondition{{Type: corev1.PodScheduled, Status: corev1.ConditionTrue}}},
	}
}

// BuildSucceededBindRequest: what the scheduler+binder leave behind for every pod they placed
// (the request is owned by the pod and lives as long as the pod).
func BuildSucceededBindRequest(p PodSpec) *bindv1alpha2.BindRequest {
	rtype := "Regular"
	shared := p.Fraction != "" || p.GPUMemMi > 0
	if shared {
		rtype = "Fraction"
	}
	br := &bindv1alpha2.BindRequest{
		TypeMeta: metav1.TypeMeta{APIVersion: "scheduling.run.ai/v1alpha2", Kind: "BindRequest"},
		ObjectMeta: metav1.ObjectMeta{
			Name: p.Name, Namespace: NS, UID: types.UID("br-" + p.Name),
			Labels: map[string]string{"selected-node": p.Node},
			OwnerReferences: []metav1.OwnerReference{{APIVersion: "v1", Kind: "Pod", Name: p.Name, UID: types.UID("pod-" + p.Name)}},
		},
		Spec: bindv1alpha2.BindRequestSpec{
			PodName: p.Name, SelectedNode: p.Node, ReceivedResourceType: rtype,
		},
		Status: bindv1alpha2.BindRequestStatus{Phase: bindv1alpha2.BindRequestPhaseSucceeded},
	}
	if shared {
		br.Spec.SelectedGPUGroups = append([]string(nil), p.GPUGroups...)
	}
	return br
}

func BuildTopology(t TopologySpec) *kaiv1alpha1.Topology {
	obj := &kaiv1alpha1.Topology{
		TypeMeta:   metav1.TypeMeta{APIVersion: "kai.scheduler/v1alpha1", Kind: "Topology"},
		ObjectMeta: metav1.ObjectMeta{Name: t.Name, UID: types.UID("topo-" + t.Name)},
	}
	for _, l := range t.Levels {
		obj.Spec.Levels = append(obj.Spec.Levels, kaiv1alpha1.TopologyLevel{NodeLabel: l})
	}
	return obj
}

// Objects returns every API object of the world in a deterministic order.
func (w *World) Objects() []runtime.Object {
	var out []runtime.Object
	for _, n := range w.Nodes {
		out = append(out, BuildNode(n))
	}
	for _, q := range w.Queues {
		qo := BuildQueue(q)
		if w.NodePool != "" {
			if qo.Labels == nil {
				qo.Labels = map[string]string{}
			}
			qo.Labels[NodePoolKey] = w.NodePool
		}
		out = append(out, qo)
	}
	for _, pc := range w.PriorityClasses {
		out = append(out, &schedulingv1.PriorityClass{
			TypeMeta:   metav1.TypeMeta{APIVersion: "scheduling.k8s.io/v1", Kind: "PriorityClass"},
			ObjectMeta: metav1.ObjectMeta{Name: pc.Name, UID: types.UID("pc-" + pc.Name)}, Value: pc.Value, GlobalDefault: pc.GlobalDefault})
	}
	for _, t := range w.Topologies {
		out = append(out, BuildTopology(t))
	}
	type ng struct{ node, group string }
	groups := map[ng]bool{}
	builtPods := map[string]*corev1.Pod{}
	for i := range w.Workloads {
		wl := &w.Workloads[i]
		if !allOtherSched(wl) {
			pg := BuildPodGroup(*wl)
			if w.NodePool != "" {
				pg.Labels[NodePoolKey] = w.NodePool
			}
			out = append(out, pg)
		}
		for _, p := range wl.Pods {
			bp := BuildPod(wl, p)
			builtPods[p.Name] = bp
			out = append(out, bp)
			if p.Node != "" && !p.OtherSched && !p.NoBindRequest {
				out = append(out, BuildSucceededBindRequest(p))
			}
			if p.Node != "" && p.State != "succeeded" && p.State != "failed" {
				for _, g := range p.GPUGroups {
					groups[ng{p.Node, g}] = true
				}
			}
		}
	}
	var gl []ng
	for g := range groups {
		gl = append(gl, g)
	}
	sort.Slice(gl, func(i, j int) bool {
		if gl[i].node != gl[j].node {
			return gl[i].node < gl[j].node
		}
		return gl[i].group < gl[j].group
	})
	perNode := map[string]int{}
	for _, g := range gl {
		out = append(out, BuildReservationPod(g.node, g.group, perNode[g.node]))
		perNode[g.node]++
	}
	out = append(out, w.draObjects(builtPods)...)
	return out
}

func allOtherSched(w *WorkloadSpec) bool {
	for _, p := range w.Pods {
		if !p.OtherSched {
			return false
		}
	}
	return len(w.Pods) > 0
}
