package kaisim

// C17: GPU reservation pods track shared-GPU usage. Binder-only simulations with concurrent
// reconciles whose API calls and group-lock acquisitions are parked at a gate and released one at
// a time in an order taken from the script's tape.

import (
	"context"
	"fmt"
	"os"
	"sort"
	"strings"
	"sync"
	"testing"
	"testing/synctest"
	"time"

	corev1 "k8s.io/api/core/v1"
	metav1 "k8s.io/apimachinery/pkg/apis/meta/v1"
	"k8s.io/apimachinery/pkg/types"
	ctrl "sigs.k8s.io/controller-runtime"
	"sigs.k8s.io/controller-runtime/pkg/event"
	"sigs.k8s.io/controller-runtime/pkg/reconcile"

	bindv1alpha2 "github.com/NVIDIA/KAI-scheduler/pkg/apis/scheduling/v1alpha2"
	"github.com/NVIDIA/KAI-scheduler/pkg/binder/binding/resourcereservation/group_mutex"
	bindercontrollers "github.com/NVIDIA/KAI-scheduler/pkg/binder/controllers"
)

type C17Step struct {
	Kind  string `json:"kind"` // reconcile | complete | delete | delete_br | restart | agent
	Pods  []string `json:"pods,omitempty"` // reconcile: BindRequests reconciled concurrently
	Arg   string `json:"arg,omitempty"`
	Crash map[string]int `json:"crash,omitempty"` // pod -> crash at its k-th gated call
	Fail  map[string]int `json:"fail,omitempty"`  // pod -> error at its k-th gated call
	Tape  []int  `json:"tape,omitempty"`
}

type C17Target struct {
	Pod     string   `json:"pod"`
	Node    string   `json:"node"`
	Groups  []string `json:"groups"`
	Fraction string  `json:"fraction"`
	Multi   bool     `json:"multi"`
}

type C17Script struct {
	MapSeed uint64      `json:"map_seed"`
	Targets []C17Target `json:"targets"`
	Sharers []C17Target `json:"sharers"` // already bound pods (with reservation pods)
	Steps   []C17Step   `json:"steps"`
}

// ---- gate ----

type parked struct {
	id     string
	desc   string
	lock   string // non-empty: a lock request for this group
	resume chan string // "" = go on; "error" / "crash"
}

type gate struct {
	mu      sync.Mutex
	enabled bool
	waiting []*parked
	owner   map[string]string // group -> reconcile id
	counts  map[string]int    // id -> gated calls so far
	crash   map[string]int
	fail    map[string]int
	epoch   int // binder incarnation; goroutines of older incarnations never run again
}

type gidKey struct{}

func (g *gate) park(ctx context.Context, id, desc, lock string) string {
	g.mu.Lock()
	if !strings.HasPrefix(id, fmt.Sprintf("%d/", g.epoch)) {
		g.mu.Unlock()
		<-make(chan struct{}) // a goroutine of a crashed incarnation
	}
	if !g.enabled {
		g.mu.Unlock()
		return ""
	}
	p := &parked{id: id, desc: desc, lock: lock, resume: make(chan string, 1)}
	g.waiting = append(g.waiting, p)
	g.mu.Unlock()
	return <-p.resume
}

// ---- run ----

func runC17(t *testing.T, s *C17Script) (res *Result) {
	res = &Result{Probes: map[string]int{}, Faults: map[string]int{}}
	verifMapRand = s.MapSeed
	defer func() { verifMapRand = 0 }()
	func() {
		defer func() {
			if p := recover(); p != nil {
				if msg := fmt.Sprint(p); !strings.Contains(msg, "deadlock: main bubble goroutine has exited") {
					res.Panic = msg
				}
			}
		}()
		synctest.Test(t, func(t *testing.T) {
			defer func() {
				group_mutex.SimYield = nil
				if p := recover(); p != nil {
					res.Panic = fmt.Sprint(p)
				}
			}()
			c17Body(s, res)
		})
	}()
	return
}

func c17Body(s *C17Script, res *Result) {
	fail := func(rule, format string, args ...any) {
		if len(res.Violations) < 20 {
			res.Violations = append(res.Violations, Violation{Prop: "C17", Rule: rule, Detail: fmt.Sprintf(format, args...)})
		}
	}
	w := World{Nodes: []NodeSpec{{Name: "n0", CPUm: 32000, MemMi: 65536, Pods: 60, GPUs: 4, GPUMemMi: 16000}, {Name: "n1", CPUm: 32000, MemMi: 65536, Pods: 60, GPUs: 4, GPUMemMi: 16000}},
		Queues: []QueueSpec{{Name: "q0", GPU: QRes{-1, -1, 1}, CPU: QRes{-1, -1, 1}, Mem: QRes{-1, -1, 1}}}}
	wl := WorkloadSpec{Name: "w", Queue: "q0", MinMember: 1, AgeSec: 10}
	for _, sh := range s.Sharers {
		p := PodSpec{Name: sh.Pod, CPUm: 100, MemMi: 64, Fraction: sh.Fraction, State: "running", Node: sh.Node, GPUGroups: sh.Groups}
		if sh.Multi {
			p.NumDevices = int64(len(sh.Groups))
		}
		wl.Pods = append(wl.Pods, p)
	}
	for _, tg := range s.Targets {
		p := PodSpec{Name: tg.Pod, CPUm: 100, MemMi: 64, Fraction: tg.Fraction, State: "pending"}
		if tg.Multi {
			p.NumDevices = int64(len(tg.Groups))
		}
		wl.Pods = append(wl.Pods, p)
	}
	w.Workloads = []WorkloadSpec{wl}
	api := NewSimAPI(w.Objects())
	for _, tg := range s.Targets {
		br := &bindv1alpha2.BindRequest{
			TypeMeta:   metav1.TypeMeta{APIVersion: "scheduling.run.ai/v1alpha2", Kind: "BindRequest"},
			ObjectMeta: metav1.ObjectMeta{Name: tg.Pod, Namespace: NS, OwnerReferences: []metav1.OwnerReference{{APIVersion: "v1", Kind: "Pod", Name: tg.Pod, UID: types.UID("pod-" + tg.Pod)}}},
			Spec: bindv1alpha2.BindRequestSpec{PodName: tg.Pod, SelectedNode: tg.Node, SelectedGPUGroups: tg.Groups, ReceivedResourceType: "Fraction",
				ReceivedGPU: &bindv1alpha2.ReceivedGPU{Count: len(tg.Groups), Portion: tg.Fraction}},
		}
		must(api.Tracker.Add(br))
	}
	g := &gate{owner: map[string]string{}, counts: map[string]int{}}
	var b *BinderActor
	newBinder := func() {
		b = NewBinderActor(api, 40*time.Second)
		b.Gate = g
		g.mu.Lock()
		g.owner = map[string]string{}
		g.epoch++
		g.waiting = nil
		g.mu.Unlock()
	}
	newBinder()
	group_mutex.SimYield = func(ev, group string) {
		id := currentReconcile()
		switch ev {
		case "lock":
			if id == "" {
				return
			}
			g.mu.Lock()
			stale := !strings.HasPrefix(id, fmt.Sprintf("%d/", g.epoch))
			g.mu.Unlock()
			if stale {
				<-make(chan struct{})
			}
			g.park(nil, id, "lock "+group, group)
		case "unlocked":
			g.mu.Lock()
			if id == "" || strings.HasPrefix(id, fmt.Sprintf("%d/", g.epoch)) {
				delete(g.owner, group)
			}
			g.mu.Unlock()
		}
	}
	invariants := func(at string) {
		perGroup := map[string][]*corev1.Pod{}
		for _, p := range api.Pods() {
			if IsReservationPod(p) {
				perGroup[p.Labels[GPUGroupLabel]] = append(perGroup[p.Labels[GPUGroupLabel]], p)
			}
		}
		for _, grp := range sortedKeys(perGroup) {
			if len(perGroup[grp]) > 1 {
				fail("two_reservation_pods", "%s: GPU group %s has %d reservation pods", at, grp, len(perGroup[grp]))
			}
		}
		for _, p := range api.Pods() {
			if IsReservationPod(p) || p.Spec.NodeName == "" || podTerminated(p) {
				continue
			}
			groups := PodGroups(p)
			if len(groups) == 0 {
				continue
			}
			var want []string
			ok := true
			for _, grp := range c17RequestGroups(api, p, groups) {
				rp := perGroup[grp]
				if len(rp) != 1 || rp[0].Annotations[GPUIndexAnnot] == "" {
					ok = false
					break
				}
				want = append(want, rp[0].Annotations[GPUIndexAnnot])
			}
			if !ok {
				continue // judged at quiescence (running pod without reservation)
			}
			base := p.Annotations["runai/shared-gpu-configmap"]
			for _, cm := range api.ConfigMaps() {
				if cm.Name == base+"-0-evar" {
					if got := cm.Data["NVIDIA_VISIBLE_DEVICES"]; got != strings.Join(want, ",") && got != "" {
						fail("wrong_device_index", "%s: bound pod %s sees devices %q, its groups' reservation pods report %v", at, p.Name, got, want)
					}
				}
			}
		}
	}
	for si, st := range s.Steps {
		at := fmt.Sprintf("step %d (%s %v %s)", si, st.Kind, st.Pods, st.Arg)
		switch st.Kind {
		case "agent":
			switch st.Arg {
			case "fast":
				b.AgentDelay = time.Second
			case "late":
				b.AgentDelay = 30 * time.Second
			case "silent":
				b.AgentDelay = -1
			}
		case "reconcile":
			before := res.Probes["crashes"]
			c17Reconcile(api, b, g, st, res)
			if res.Probes["crashes"] > before {
				newBinder()
				_ = b.Sync()
			}
		case "complete":
			if p := api.Pod(NS, st.Arg); p != nil && p.Spec.NodeName != "" && p.Status.Phase != corev1.PodSucceeded {
				old := p
				p = p.DeepCopy()
				p.Status.Phase = corev1.PodSucceeded
				api.UpdatePod(p)
				c17PodEvent(b, old, p, false)
				res.Probes["pod_completed"]++
				c17AfterConsumerGone(api, p, "completion", fail, res)
			}
		case "terminate": // graceful deletion: the pod is marked for deletion and keeps running until the kubelet is done
			if p := api.Pod(NS, st.Arg); p != nil && p.Spec.NodeName != "" && p.DeletionTimestamp == nil && !podTerminated(p) {
				old := p
				p = p.DeepCopy()
				now := metav1.NewTime(time.Now())
				p.DeletionTimestamp = &now
				p.Finalizers = append(p.Finalizers, "kaisim/kubelet")
				api.UpdatePod(p)
				c17PodEvent(b, old, p, false)
				res.Probes["pod_marked_for_deletion"]++
			}
		case "delete":
			if p := api.Pod(NS, st.Arg); p != nil {
				api.RemovePod(NS, st.Arg)
				c17PodEvent(b, nil, p, true)
				res.Probes["pod_deleted"]++
				c17AfterConsumerGone(api, p, "deletion", fail, res)
			}
		case "delete_br":
			if br := getBR(api, st.Arg); br != nil {
				_ = api.Tracker.Delete(BRGVR, NS, st.Arg)
				for _, grp := range br.Spec.SelectedGPUGroups {
					_ = b.RRS.SyncForGpuGroup(context.Background(), grp)
				}
				res.Probes["br_deleted"]++
			}
		case "restart":
			newBinder()
			_ = b.Sync()
			res.Probes["restart_sync"]++
		}
		synctest.Wait()
		time.Sleep(2 * time.Second)
		synctest.Wait()
		invariants(at)
	}
	// quiescence: faults stopped, one Sync
	time.Sleep(60 * time.Second)
	synctest.Wait()
	newBinder()
	if err := b.Sync(); err != nil {
		fail("final_sync_error", "fault-free Sync failed: %v", err)
	}
	invariants("quiescence")
	live := map[string][]string{}
	for _, p := range api.Pods() {
		if IsReservationPod(p) {
			continue
		}
		// live = not finished: a pod marked for deletion keeps its device until it has actually stopped
		if p.Status.Phase == corev1.PodPending || p.Status.Phase == corev1.PodRunning {
			for _, grp := range PodGroups(p) {
				live[grp] = append(live[grp], p.Name)
			}
		}
	}
	hasRes := map[string]bool{}
	for _, p := range api.Pods() {
		if IsReservationPod(p) {
			grp := p.Labels[GPUGroupLabel]
			hasRes[grp] = true
			if len(live[grp]) == 0 {
				fail("orphan_reservation_pod", "quiescence: reservation pod %s of group %s exists but no live pod carries the group", p.Name, grp)
			}
		}
	}
	for _, grp := range sortedKeys(live) {
		if !hasRes[grp] {
			for _, pn := range live[grp] {
				if p := api.Pod(NS, pn); p != nil && p.Status.Phase == corev1.PodRunning {
					fail("running_pod_without_reservation", "quiescence: running pod %s is attached to group %s which has no reservation pod", pn, grp)
				}
			}
			if len(live[grp]) > 0 {
				rule := "labelled_pod_without_reservation"
				fail(rule, "quiescence: live pods %v carry group %s but it has no reservation pod", live[grp], grp)
			}
		}
	}
	res.StateHash = hashStrings([]string{fmt.Sprint(len(api.Pods())), fmt.Sprint(api.Binds)})
	res.NonTrivial = len(api.Binds) > 0
	res.Cycles = len(s.Steps)
}

// c17AfterConsumerGone: "... pod completions or deletions ... and the sync that follows them": when the pod that just
// completed / was deleted was the last live consumer of a GPU group, the sync its event triggers must remove the
// group's reservation pod; no global re-sync (binder restart) is needed for that.
func c17AfterConsumerGone(api *SimAPI, gone *corev1.Pod, what string, fail func(rule, format string, args ...any), res *Result) {
	synctest.Wait()
	for _, grp := range PodGroups(gone) {
		liveConsumers := 0
		for _, p := range api.Pods() {
			if IsReservationPod(p) || p.Name == gone.Name {
				continue
			}
			if p.Status.Phase == corev1.PodPending || p.Status.Phase == corev1.PodRunning {
				for _, g := range PodGroups(p) {
					if g == grp {
						liveConsumers++
					}
				}
			}
		}
		if liveConsumers > 0 {
			continue
		}
		res.Probes["c17_last_consumer_gone"]++
		for _, p := range api.Pods() {
			if IsReservationPod(p) && p.Labels[GPUGroupLabel] == grp && p.DeletionTimestamp == nil {
				fail("reservation_outlives_last_consumer", "after the %s of %s, the last live pod of GPU group %s, and the sync its event triggers, reservation pod %s still exists", what, gone.Name, grp, p.Name)
			}
		}
	}
}

// c17RequestGroups: for a bound pod the order of devices is the order of the request's groups.
func c17RequestGroups(api *SimAPI, p *corev1.Pod, fallback []string) []string {
	if br := getBR(api, p.Name); br != nil && len(br.Spec.SelectedGPUGroups) > 0 {
		return br.Spec.SelectedGPUGroups
	}
	return fallback
}

// c17PodEvent delivers a pod update / delete event to the binder's real pod controller event handlers (hook H7).
func c17PodEvent(b *BinderActor, old, p *corev1.Pod, deleted bool) {
	pr := &bindercontrollers.PodReconciler{Client: b.Client, Scheme: Scheme(), ResourceReservation: b.RRS, SchedulerName: SchedulerName}
	h := pr.EventHandlersForSim()
	q := nopQueue{}
	if deleted {
		h.DeleteFunc(context.Background(), event.DeleteEvent{Object: p}, q)
		return
	}
	h.UpdateFunc(context.Background(), event.UpdateEvent{ObjectOld: old, ObjectNew: p}, q)
}

// nopQueue: the pod controller's Reconcile does nothing; only the handlers' side effects matter.
type nopQueue struct{}

func (nopQueue) Add(reconcile.Request)                          {}
func (nopQueue) Len() int                                       { return 0 }
func (nopQueue) Get() (reconcile.Request, bool)                 { return reconcile.Request{}, true }
func (nopQueue) Done(reconcile.Request)                         {}
func (nopQueue) ShutDown()                                      {}
func (nopQueue) ShutDownWithDrain()                             {}
func (nopQueue) ShuttingDown() bool                             { return false }
func (nopQueue) AddAfter(reconcile.Request, time.Duration)      {}
func (nopQueue) AddRateLimited(reconcile.Request)               {}
func (nopQueue) Forget(reconcile.Request)                       {}
func (nopQueue) NumRequeues(reconcile.Request) int              { return 0 }

var (
	curRecMu sync.Mutex
	curRec   = map[int64]string{}
)

// reconcile ids are carried through a goroutine-local registry keyed by a token the goroutine
// stores before it starts (the interceptor and the lock hook run on the reconcile's goroutine)
func currentReconcile() string {
	curRecMu.Lock()
	defer curRecMu.Unlock()
	return curRec[goid()]
}

func c17Reconcile(api *SimAPI, b *BinderActor, g *gate, st C17Step, res *Result) {
	type outcome struct {
		err     error
		crashed bool
	}
	n := len(st.Pods)
	done := make([]chan outcome, n)
	g.mu.Lock()
	g.enabled = true
	g.counts = map[string]int{}
	g.crash, g.fail = st.Crash, st.Fail
	g.mu.Unlock()
	g.mu.Lock()
	epoch := g.epoch
	g.mu.Unlock()
	pid := func(id string) string { return id[strings.Index(id, "/")+1:] }
	crashedCh := make(chan string, 8)
	b.mu.Lock()
	b.OnCrash = func(id string, _ int) { crashedCh <- id }
	b.mu.Unlock()
	binderDown := false
	for i, pod := range st.Pods {
		done[i] = make(chan outcome, 1)
		pod := pod
		ch := done[i]
		go func() {
			curRecMu.Lock()
			curRec[goid()] = fmt.Sprintf("%d/%s", epoch, pod)
			curRecMu.Unlock()
			defer func() {
				curRecMu.Lock()
				delete(curRec, goid())
				curRecMu.Unlock()
			}()
			_, err := b.Rec.Reconcile(context.Background(), ctrl.Request{NamespacedName: types.NamespacedName{Namespace: NS, Name: pod}})
			ch <- outcome{err: err}
		}()
	}
	finished := 0
	tape := st.Tape
	steps := 0
	idle := 0
	for finished < n && steps < 4000 && !binderDown {
		synctest.Wait()
		select {
		case <-crashedCh:
			// the binder process is gone: every in-flight reconcile stops where it is
			res.Probes["crashes"]++
			binderDown = true
			continue
		default:
		}
		for i := range done {
			if done[i] == nil {
				continue
			}
			select {
			case o := <-done[i]:
				done[i] = nil
				finished++
				if o.crashed {
					res.Probes["crashes"]++
					// a crashed binder takes all its in-flight reconciles with it
				}
				if o.err != nil {
					res.Probes["reconcile_errors"]++
				}
			default:
			}
		}
		g.mu.Lock()
		sort.Slice(g.waiting, func(i, j int) bool {
			if g.waiting[i].id != g.waiting[j].id {
				return g.waiting[i].id < g.waiting[j].id
			}
			return g.waiting[i].desc < g.waiting[j].desc
		})
		var eligible []*parked
		for _, p := range g.waiting {
			if p.lock != "" {
				if o, held := g.owner[p.lock]; held && o != p.id {
					continue
				}
			}
			eligible = append(eligible, p)
		}
		if len(eligible) == 0 {
			g.mu.Unlock()
			if finished >= n {
				break
			}
			// everybody waits for time (agent, timeouts)
			idle++
			if idle > 200 {
				break
			}
			time.Sleep(time.Second)
			continue
		}
		idle = 0
		choice := 0
		if len(tape) > 0 {
			choice = tape[0] % len(eligible)
			tape = tape[1:]
		}
		p := eligible[choice]
		if len(eligible) > 1 {
			res.Probes["interleaving_choices"]++
		}
		for i, q := range g.waiting {
			if q == p {
				g.waiting = append(g.waiting[:i], g.waiting[i+1:]...)
				break
			}
		}
		verdict := ""
		if p.lock != "" {
			g.owner[p.lock] = p.id
			if held := len(g.owner); held > 0 {
				res.Probes["lock_acquisitions"]++
			}
		} else {
			g.counts[p.id]++
			if k, ok := g.crash[pid(p.id)]; ok && k == g.counts[p.id] {
				verdict = "crash"
				res.Faults["crash"]++
			} else if k, ok := g.fail[pid(p.id)]; ok && k == g.counts[p.id] {
				verdict = "error"
				res.Faults["error"]++
			}
		}
		g.mu.Unlock()
		if os.Getenv("KAISIM_DEBUG_C17") != "" {
			fmt.Printf("GATE t=%s release %s: %s %s\n", time.Now().Format("15:04:05"), p.id, p.desc, verdict)
		}
		p.resume <- verdict
		steps++
	}
	g.mu.Lock()
	g.enabled = false
	// release whatever is still parked (reconciles of a crashed incarnation stay parked forever in
	// a real crash; here they are told to crash as well)
	g.waiting = nil // goroutines of a crashed incarnation stay parked forever
	g.mu.Unlock()
	synctest.Wait()
}
