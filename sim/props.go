package kaisim

import (
	"os"
	"testing"

	"pgregory.net/rapid"
)

type PropDef struct {
	Gen     func(t *rapid.T, thorough bool) *Script
	Oracles func() []Oracle
	// Post: optional extra executions of the same script (e.g. other map-iteration seeds)
	Post func(t *testing.T, s *Script, ors []Oracle, res *Result)
}

var Props = map[string]PropDef{}

func mixedOpts(thorough bool) GenOpts {
	return mixedOptsImpl(thorough)
}

func mixedOptsImpl(thorough bool) GenOpts {
	o := GenOpts{
		MaxNodes: 4, MaxWorkloads: 8, MaxPodsPerWL: 4,
		Fractions: true, MIG: true, Gangs: true, SubGroups: true, Running: true, Terminating: true,
		Hierarchy: 2, Limits: true, Priorities: true, NonPreemptible: true, TightPods: true,
		Faults: true, BindFailures: true, Completions: true, MinCycles: 2, MaxCycles: 5, BestEffort: true,
	}
	if thorough {
		o.MaxNodes, o.MaxWorkloads, o.MaxCycles, o.Hierarchy = 6, 12, 8, 3
	}
	return o
}

func init() {
	Props["C01"] = PropDef{
		Gen: func(t *rapid.T, thorough bool) *Script {
			o := mixedOpts(thorough)
			o.Overhead, o.DRA, o.SchedCrash, o.BestEffort = true, true, true, true
			if chance(t, "faultfree", 40) {
				o.Faults, o.BindFailures, o.SchedCrash = false, false, false
				return GenScript(t, "C01", "mixed-faultfree", o)
			}
			if chance(t, "pressure", 30) {
				return GenPressureScript(t, "C01", "gang-pressure-faults", o)
			}
			return GenScript(t, "C01", "mixed-faults", o)
		},
		Oracles: func() []Oracle { return []Oracle{&CapacityOracle{prop: "C01"}} },
	}
	Props["C14"] = PropDef{
		Gen: func(t *rapid.T, thorough bool) *Script {
			o := mixedOpts(thorough)
			o.Overhead, o.DRA, o.SchedCrash, o.BestEffort = true, true, true, true
			if chance(t, "faultfree", 50) {
				o.Faults, o.BindFailures, o.SchedCrash = false, false, false
				return GenScript(t, "C14", "mixed-faultfree", o)
			}
			return GenScript(t, "C14", "mixed-faults", o)
		},
		Oracles: func() []Oracle { return []Oracle{&AccountingOracle{}} },
	}
	Props["C03"] = PropDef{
		Gen: func(t *rapid.T, thorough bool) *Script {
			o := mixedOpts(thorough)
			o.Faults, o.BindFailures, o.MIG = false, false, false
			o.MaxPodsPerWL = 5
			if chance(t, "pressure", 35) {
				return GenPressureScript(t, "C03", "gang-pressure", o)
			}
			return GenScript(t, "C03", "gangs-faultfree", o)
		},
		Oracles: func() []Oracle { return []Oracle{GangOracle{}} },
	}
	Props["C06"] = PropDef{
		Gen: func(t *rapid.T, thorough bool) *Script {
			o := mixedOpts(thorough)
			o.Faults, o.MIG, o.MinRuntime = false, false, true
			o.MidEvict = true
			if chance(t, "protectedelastic", 25) {
				return GenProtectedElasticScript(t, "C06", o)
			}
			if chance(t, "deeptree", 20) {
				return GenDeepTreeReclaimScript(t, "C06", o)
			}
			return GenScript(t, "C06", "victims", o)
		},
		Oracles: func() []Oracle { return []Oracle{VictimOracle{}} },
	}
	Props["C08"] = PropDef{
		Gen: func(t *rapid.T, thorough bool) *Script {
			o := mixedOpts(thorough)
			o.Faults, o.MIG = false, false
			o.Hierarchy = 3
			if chance(t, "faulty", 35) { // failing bind / evict API calls in the middle of a commit
				o.Faults = true
				if chance(t, "pressure", 50) {
					return GenPressureScript(t, "C08", "queue-limits-pressure-faults", o)
				}
				return GenScript(t, "C08", "queue-limits-faults", o)
			}
			return GenScript(t, "C08", "queue-limits", o)
		},
		Oracles: func() []Oracle { return []Oracle{QueueLimitOracle{}} },
	}
	Props["C16"] = PropDef{
		Gen: func(t *rapid.T, thorough bool) *Script {
			o := mixedOpts(thorough)
			o.Faults, o.BindFailures, o.MIG, o.Twins = false, false, false, true
			s := GenScript(t, "C16", "twins", o)
			if chance(t, "queuedepth", 30) {
				// a bounded number of jobs per queue is tried by allocate: the bound must keep the first jobs of the order
				s.Config.QueueDepth = map[string]int{"allocate": rapid.IntRange(1, 4).Draw(t, "allocdepth")}
			}
			return s
		},
		Oracles: func() []Oracle { return []Oracle{OrderOracle{}} },
	}
	Props["C10"] = PropDef{
		Gen:     GenRobustnessScript,
		Oracles: func() []Oracle { return []Oracle{RobustnessOracle{}} },
	}
	Props["C15"] = PropDef{
		Gen:     GenClosedSystemScript,
		Oracles: func() []Oracle { return []Oracle{&LivelockOracle{}} },
	}
	Props["C09"] = PropDef{
		Gen: func(t *rapid.T, thorough bool) *Script {
			o := mixedOpts(thorough)
			o.Faults, o.BindFailures, o.MIG = false, false, false
			o.Hierarchy, o.MaxWorkloads, o.MaxCycles = 3, 12, 3
			s := GenScript(t, "C09", "queue-trees", o)
			for i := range s.World.Queues { // queues of different age: the remainder tie-break looks at creation time before the UID
				s.World.Queues[i].AgeH = pick(t, "qage", 0, 0, 1, 5, 100)
			}
			if chance(t, "tiersfractions", 40) {
				// several queue priority tiers among siblings and fractional GPU limits: a higher tier that ends satisfied can
				// leave less than one whole GPU for the tiers below it
				for i := range s.World.Queues {
					if chance(t, "tierprio", 60) {
						p := pick(t, "tierpriov", 50, 100, 200)
						s.World.Queues[i].Priority = &p
					}
					if chance(t, "fraclimit", 40) {
						s.World.Queues[i].GPU.Limit = pick(t, "fraclimitv", 0.5, 1.5, 2.5, 3.5)
					}
				}
			}
			if chance(t, "timebased", 45) { // time-based fair share: historical usage per queue and a k-value
				s.Profile = "queue-trees-usage"
				s.Config.KValue = pick(t, "kvalue", "", "0.5", "1", "2", "10")
				s.Config.Usage = map[string][3]float64{}
				for _, q := range s.World.Queues {
					if chance(t, "hasusage", 75) {
						u := pick(t, "usage", 0.0, 0.05, 0.2, 0.5, 0.9, 1.0)
						s.Config.Usage[q.Name] = [3]float64{u, pick(t, "usagecpu", 0.0, u, 0.5), pick(t, "usagemem", 0.0, u)}
					}
				}
			}
			return s
		},
		Oracles: func() []Oracle { return []Oracle{&FairShareOracle{}} },
		Post: func(t *testing.T, s *Script, ors []Oracle, res *Result) {
			base := ors[0].(*FairShareOracle).Shares
			for _, delta := range []uint64{0x9E3779B9, 0x7F4A7C15F39CC060} {
				s2 := *s
				s2.MapSeed = s.MapSeed ^ delta
				if s2.MapSeed == 0 {
					s2.MapSeed = 1
				}
				o2 := &FairShareOracle{}
				RunScript(t, &s2, []Oracle{o2}, false)
				res.Probes["c09_order_variants_compared"]++
				if d := CompareShares(base, o2.Shares); d != "" {
					res.Violations = append(res.Violations, Violation{Prop: "C09", Rule: "order_dependence", Detail: "fair share depends on map iteration order: " + d, Cycle: 1})
				}
			}
		},
	}
	Props["C13"] = PropDef{
		Gen:     GenStmtFuzzScript,
		Oracles: func() []Oracle { return []Oracle{&AccountingOracle{}} },
	}
	Props["C12"] = PropDef{
		Gen: GenHandoffScript,
		Oracles: func() []Oracle {
			return []Oracle{&HandoffOracle{}, &CapacityOracle{prop: "C01", as: "C12"}, &CapacityOracle{prop: "C02", as: "C12"}}
		},
	}
	Props["C17"] = PropDef{
		Gen:     GenC17Script,
		Oracles: func() []Oracle { return nil },
	}
	Props["C04"] = PropDef{
		Gen:     GenPlacementScript,
		Oracles: func() []Oracle { return []Oracle{PlacementOracle{}} },
	}
	Props["C07"] = PropDef{
		Gen: func(t *rapid.T, thorough bool) *Script {
			o := mixedOpts(thorough)
			o.Faults, o.BindFailures, o.MIG = false, false, false
			o.Hierarchy = 3
			var s *Script
			if chance(t, "departments", 25) {
				s = GenDepartmentReclaimScript(t, "C07", o)
			} else if chance(t, "pressure", 40) {
				s = GenPressureScript(t, "C07", "reclaim-pressure", o)
			} else {
				s = GenScript(t, "C07", "reclaim-mixed", o)
			}
			s.Config.SaturationMultiplier = pick(t, "satmult", "", "1", "1.2", "2")
			return s
		},
		Oracles: func() []Oracle { return []Oracle{&ReclaimOracle{}} },
	}
	Props["C05"] = PropDef{
		Gen: func(t *rapid.T, thorough bool) *Script {
			o := mixedOpts(thorough)
			o.Faults, o.BindFailures, o.MIG = false, false, false
			prof := pick(t, "c05profile", "mixed", "mixed", "pressure", "unobstructed", "unobstructed", "departments", "departments")
			if f := os.Getenv("KAISIM_C05_PROFILE"); f != "" {
				prof = f
			}
			switch prof {
			case "departments":
				return GenUnobstructedDepartmentsScript(t, o)
			case "pressure":
				return GenPressureScript(t, "C05", "progress-pressure", o)
			case "unobstructed":
				return GenUnobstructedScript(t, o)
			}
			return GenScript(t, "C05", "progress-mixed", o)
		},
		Oracles: func() []Oracle { return []Oracle{&ProgressOracle{}} },
	}
	Props["C18"] = PropDef{
		Gen:     GenC18Script,
		Oracles: func() []Oracle { return nil },
	}
	Props["C20"] = PropDef{
		Gen: func(t *rapid.T, thorough bool) *Script {
			if chance(t, "operator", 6) || os.Getenv("KAISIM_C20_PROFILE") == "operator" {
				return GenC20OpScript(t, thorough)
			}
			return GenC20Script(t, thorough)
		},
		Oracles: func() []Oracle { return nil },
	}
	Props["C02"] = PropDef{
		Gen: func(t *rapid.T, thorough bool) *Script {
			o := mixedOpts(thorough)
			o.MIG = false
			o.Faults = chance(t, "faulty", 40) // failing bind / evict API calls in the middle of a commit
			o.SchedCrash = o.Faults
			if chance(t, "sharedpressure", 35) {
				return GenSharedGPUScript(t, "C02", o)
			}
			return GenScript(t, "C02", "fraction-heavy", o)
		},
		Oracles: func() []Oracle { return []Oracle{&CapacityOracle{prop: "C02"}} },
	}
}
