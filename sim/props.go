package kaisim

import "pgregory.net/rapid"

type PropDef struct {
	Gen     func(t *rapid.T, thorough bool) *Script
	Oracles func() []Oracle
}

var Props = map[string]PropDef{}

func mixedOpts(thorough bool) GenOpts {
	return mixedOptsImpl(thorough)
}

func mixedOptsImpl(thorough bool) GenOpts {
	o := GenOpts{
		MaxNodes: 4, MaxWorkloads: 8, MaxPodsPerWL: 4,
		Fractions: true, MIG: true, Gangs: true, SubGroups: true, Running: true, Terminating: true,
		Hierarchy: 2, Limits: true, Priorities: true, NonPreemptible: true, TightPods: true,
		Faults: true, BindFailures: true, Completions: true, MinCycles: 2, MaxCycles: 5,
	}
	if thorough {
		o.MaxNodes, o.MaxWorkloads, o.MaxCycles, o.Hierarchy = 6, 12, 8, 3
	}
	return o
}

func init() {
	Props["C01"] = PropDef{
		Gen: func(t *rapid.T, thorough bool) *Script {
			o := mixedOpts(thorough)
			if chance(t, "faultfree", 40) {
				o.Faults, o.BindFailures = false, false
				return GenScript(t, "C01", "mixed-faultfree", o)
			}
			return GenScript(t, "C01", "mixed-faults", o)
		},
		Oracles: func() []Oracle { return []Oracle{&CapacityOracle{prop: "C01"}} },
	}
	Props["C14"] = PropDef{
		Gen: func(t *rapid.T, thorough bool) *Script {
			o := mixedOpts(thorough)
			if chance(t, "faultfree", 50) {
				o.Faults, o.BindFailures = false, false
				return GenScript(t, "C14", "mixed-faultfree", o)
			}
			return GenScript(t, "C14", "mixed-faults", o)
		},
		Oracles: func() []Oracle { return []Oracle{&AccountingOracle{}} },
	}
	Props["C03"] = PropDef{
		Gen: func(t *rapid.T, thorough bool) *Script {
			o := mixedOpts(thorough)
			o.Faults, o.BindFailures, o.MIG = false, false, false
			o.MaxPodsPerWL = 5
			return GenScript(t, "C03", "gangs-faultfree", o)
		},
		Oracles: func() []Oracle { return []Oracle{GangOracle{}} },
	}
	Props["C06"] = PropDef{
		Gen: func(t *rapid.T, thorough bool) *Script {
			o := mixedOpts(thorough)
			o.Faults, o.MIG, o.MinRuntime = false, false, true
			return GenScript(t, "C06", "victims", o)
		},
		Oracles: func() []Oracle { return []Oracle{VictimOracle{}} },
	}
	Props["C08"] = PropDef{
		Gen: func(t *rapid.T, thorough bool) *Script {
			o := mixedOpts(thorough)
			o.Faults, o.MIG = false, false
			o.Hierarchy = 3
			return GenScript(t, "C08", "queue-limits", o)
		},
		Oracles: func() []Oracle { return []Oracle{QueueLimitOracle{}} },
	}
	Props["C16"] = PropDef{
		Gen: func(t *rapid.T, thorough bool) *Script {
			o := mixedOpts(thorough)
			o.Faults, o.BindFailures, o.MIG, o.Twins = false, false, false, true
			return GenScript(t, "C16", "twins", o)
		},
		Oracles: func() []Oracle { return []Oracle{OrderOracle{}} },
	}
	Props["C10"] = PropDef{
		Gen:     GenRobustnessScript,
		Oracles: func() []Oracle { return []Oracle{RobustnessOracle{}} },
	}
	Props["C15"] = PropDef{
		Gen:     GenClosedSystemScript,
		Oracles: func() []Oracle { return []Oracle{&LivelockOracle{}} },
	}
	Props["C02"] = PropDef{
		Gen: func(t *rapid.T, thorough bool) *Script {
			o := mixedOpts(thorough)
			o.MIG = false
			o.Faults = false
			return GenScript(t, "C02", "fraction-heavy", o)
		},
		Oracles: func() []Oracle { return []Oracle{&CapacityOracle{prop: "C02"}} },
	}
}
