package kaisim

// C18: the pod-grouper is a deterministic, idempotent function of the workload.
//
// The simulator is the pod controller's work queue (For(&Pod{}): a pod event enqueues that pod; up to
// K distinct keys are reconciled concurrently; an error re-queues) in front of the real PodReconciler,
// real podgrouper/plugins hub and real podgroup.Handler (hook H2). Concurrent reconciles of sibling
// pods are interleaved at API-call granularity through a parking gate whose release order comes from
// the script's tape. Faults: API errors before the call, lost responses (write applied, error
// returned), controller restart (full resync). Oracles: sibling rule, foreign-owned fields, write-free
// fixpoint, and a differential run of the same history under other reconcile orders.

import (
	"time"
	"context"
	"encoding/json"
	"fmt"
	"os"
	"runtime/debug"
	"sort"
	"strings"
	"sync"
	"testing"
	"testing/synctest"

	corev1 "k8s.io/api/core/v1"
	schedulingv1 "k8s.io/api/scheduling/v1"
	metav1 "k8s.io/apimachinery/pkg/apis/meta/v1"
	"k8s.io/apimachinery/pkg/apis/meta/v1/unstructured"
	"k8s.io/apimachinery/pkg/runtime"
	"k8s.io/apimachinery/pkg/types"
	"k8s.io/client-go/tools/record"
	ctrl "sigs.k8s.io/controller-runtime"
	"sigs.k8s.io/controller-runtime/pkg/client"
	"sigs.k8s.io/controller-runtime/pkg/client/apiutil"
	crfake "sigs.k8s.io/controller-runtime/pkg/client/fake"
	"sigs.k8s.io/controller-runtime/pkg/client/interceptor"

	schedv2alpha2 "github.com/NVIDIA/KAI-scheduler/pkg/apis/scheduling/v2alpha2"
	podgrouper "github.com/NVIDIA/KAI-scheduler/pkg/podgrouper"
	pluginshub "github.com/NVIDIA/KAI-scheduler/pkg/podgrouper/podgrouper/hub"
)

const (
	c18QueueLabel = "kai.scheduler/queue"
	c18Scheduler  = "kai-scheduler"
)

type C18Workload struct {
	Kind     string `json:"kind"`
	Name     string `json:"name"`
	Replicas int    `json:"replicas"`
	// template metadata (identical for all sibling pods) and metadata of the grouping owner
	OwnerLabels map[string]string `json:"owner_labels,omitempty"`
	OwnerAnnots map[string]string `json:"owner_annots,omitempty"`
	TopLabels   map[string]string `json:"top_labels,omitempty"` // labels of a skipped top owner
	PodLabels   map[string]string `json:"pod_labels,omitempty"`
	PodAnnots   map[string]string `json:"pod_annots,omitempty"`
	PodPriority string            `json:"pod_priority,omitempty"`
	// kind specific
	Masters      int  `json:"masters,omitempty"`
	MinAvailable int  `json:"min_available,omitempty"`
	ElasticMin   int  `json:"elastic_min,omitempty"`
	Segment      int  `json:"segment,omitempty"`
	AnyOrder     bool `json:"any_order,omitempty"`
	Parallelism  int  `json:"parallelism,omitempty"`
	Completions  int  `json:"completions,omitempty"`
	RJReplicas   int  `json:"rj_replicas,omitempty"`
	Delayed      bool `json:"delayed,omitempty"`
	GroupSize    int  `json:"group_size,omitempty"`
	// ScaledDown: the (elastic) job was resized down by this many workers while their pods still exist (terminating / not yet
	// removed by the training operator): the owner declares fewer Worker replicas than there are indexed worker pods
	ScaledDown int `json:"scaled_down,omitempty"`
	// ChildMetaDiffers: the intermediate owners (child Jobs of a JobSet) carry different priority class / preemptibility
	// labels, as a JobSet copies them from each replicated job's template: the PodGroup must not depend on them
	ChildMetaDiffers bool `json:"child_meta_differs,omitempty"`
}

type C18Step struct {
	Kind string `json:"kind"` // create | delete | schedule | foreign | owner_label | drain | fail | restart
	W    int    `json:"w,omitempty"`
	Pods []int  `json:"pods,omitempty"`
	Arg  string `json:"arg,omitempty"`
	Val  string `json:"val,omitempty"`
	N    int    `json:"n,omitempty"`
	K    int    `json:"k,omitempty"`
	Tape []int  `json:"tape,omitempty"`
}

type C18Script struct {
	Workloads  []C18Workload `json:"workloads"`
	Steps      []C18Step     `json:"steps"`
	DefaultsCM bool          `json:"defaults_cm,omitempty"`
	Tape       []int         `json:"tape,omitempty"`
}

// ---- object builders ----

type c18Pod struct {
	obj *corev1.Pod
	key string // expected grouping key: pods share a pod group iff their keys are equal
}

type c18Built struct {
	owners []*unstructured.Unstructured
	pods   []c18Pod
	// effective grouping owner (labels/annotations the user controls), for owner_label steps
	effective *unstructured.Unstructured
	minMember map[string]int32 // grouping key -> documented minMember (absent: not asserted)
}

func c18Obj(apiVersion, kind, name string, labels, annots map[string]string, owner *unstructured.Unstructured, spec map[string]any) *unstructured.Unstructured {
	u := &unstructured.Unstructured{Object: map[string]any{"apiVersion": apiVersion, "kind": kind}}
	u.SetName(name)
	u.SetNamespace(NS)
	u.SetUID(types.UID("uid-" + strings.ToLower(kind) + "-" + name))
	if len(labels) > 0 {
		u.SetLabels(copyMap(labels))
	}
	if len(annots) > 0 {
		u.SetAnnotations(copyMap(annots))
	}
	if owner != nil {
		u.SetOwnerReferences([]metav1.OwnerReference{c18Ref(owner)})
	}
	if spec != nil {
		u.Object["spec"] = spec
	}
	return u
}

func c18Ref(o *unstructured.Unstructured) metav1.OwnerReference {
	t := true
	return metav1.OwnerReference{APIVersion: o.GetAPIVersion(), Kind: o.GetKind(), Name: o.GetName(), UID: o.GetUID(), Controller: &t}
}

func copyMap(m map[string]string) map[string]string {
	out := map[string]string{}
	for k, v := range m {
		out[k] = v
	}
	return out
}

func c18BuildPod(w *C18Workload, name string, extraLabels map[string]string, owner *unstructured.Unstructured) *corev1.Pod {
	labels := copyMap(w.PodLabels)
	for k, v := range extraLabels {
		labels[k] = v
	}
	p := &corev1.Pod{
		TypeMeta:   metav1.TypeMeta{APIVersion: "v1", Kind: "Pod"},
		ObjectMeta: metav1.ObjectMeta{Name: name, Namespace: NS, UID: types.UID("uid-pod-" + name), Labels: labels, Annotations: copyMap(w.PodAnnots)},
		Spec: corev1.PodSpec{SchedulerName: c18Scheduler, PriorityClassName: w.PodPriority,
			Containers: []corev1.Container{{Name: "c", Image: "i"}}},
	}
	if owner != nil {
		p.OwnerReferences = []metav1.OwnerReference{c18Ref(owner)}
	}
	return p
}

func i64(n int) int64 { return int64(n) }

// c18Build materialises a workload: its owner chain and all sibling pods it may ever have.
func c18Build(w *C18Workload) *c18Built {
	b := &c18Built{minMember: map[string]int32{}}
	n := w.Replicas
	if n < 1 {
		n = 1
	}
	add := func(p *corev1.Pod, key string) { b.pods = append(b.pods, c18Pod{obj: p, key: key}) }
	shared := w.Name
	switch w.Kind {
	case "pod": // bare pods: each is its own workload
		for i := 0; i < n; i++ {
			name := fmt.Sprintf("%s-%d", w.Name, i)
			add(c18BuildPod(w, name, nil, nil), name)
			b.minMember[name] = 1
		}
	case "spark": // driver pod owns the executors; all carry the app selector
		sel := map[string]string{"spark-app-name": w.Name, "spark-app-selector": "spark-" + w.Name}
		drv := c18BuildPod(w, w.Name+"-0", sel, nil)
		add(drv, shared)
		du := &unstructured.Unstructured{Object: map[string]any{"apiVersion": "v1", "kind": "Pod"}}
		du.SetName(drv.Name)
		du.SetUID(drv.UID)
		for i := 1; i < n; i++ {
			add(c18BuildPod(w, fmt.Sprintf("%s-%d", w.Name, i), sel, du), shared)
		}
	case "replicaset", "statefulset", "custom":
		api, kind := "apps/v1", "ReplicaSet"
		if w.Kind == "statefulset" {
			kind = "StatefulSet"
		}
		if w.Kind == "custom" {
			api, kind = "example.io/v1", "Widget"
		}
		o := c18Obj(api, kind, w.Name, w.OwnerLabels, w.OwnerAnnots, nil, map[string]any{"replicas": i64(n)})
		b.owners, b.effective = append(b.owners, o), o
		for i := 0; i < n; i++ {
			add(c18BuildPod(w, fmt.Sprintf("%s-%d", w.Name, i), nil, o), shared)
		}
	case "deployment":
		d := c18Obj("apps/v1", "Deployment", w.Name, w.OwnerLabels, w.OwnerAnnots, nil, map[string]any{"replicas": i64(n)})
		rs := c18Obj("apps/v1", "ReplicaSet", w.Name+"-rs", nil, nil, d, map[string]any{"replicas": i64(n)})
		b.owners, b.effective = append(b.owners, d, rs), d
		for i := 0; i < n; i++ {
			name := fmt.Sprintf("%s-%d", w.Name, i)
			add(c18BuildPod(w, name, nil, rs), name)
			b.minMember[name] = 1
		}
	case "job":
		j := c18Obj("batch/v1", "Job", w.Name, w.OwnerLabels, w.OwnerAnnots, nil, map[string]any{"parallelism": i64(max(1, w.Parallelism))})
		b.owners, b.effective = append(b.owners, j), j
		for i := 0; i < n; i++ {
			name := fmt.Sprintf("%s-%d", w.Name, i)
			add(c18BuildPod(w, name, nil, j), name)
			b.minMember[name] = 1
		}
	case "cronjob":
		cj := c18Obj("batch/v1", "CronJob", w.Name, w.TopLabels, nil, nil, map[string]any{"schedule": "* * * * *"})
		j := c18Obj("batch/v1", "Job", w.Name+"-1", w.OwnerLabels, w.OwnerAnnots, cj, map[string]any{"parallelism": i64(1)})
		b.owners, b.effective = append(b.owners, cj, j), j
		for i := 0; i < n; i++ {
			add(c18BuildPod(w, fmt.Sprintf("%s-%d", w.Name, i), nil, j), shared)
		}
		b.minMember[shared] = 1
	case "pytorch", "workflow_pytorch", "tfjob":
		masters := w.Masters
		if masters > 1 {
			masters = 1
		}
		workers := n - masters
		if workers < 1 {
			workers = 1
		}
		specs := map[string]any{}
		mName, wName, field, kind := "Master", "Worker", "pytorchReplicaSpecs", "PyTorchJob"
		if w.Kind == "tfjob" {
			mName, field, kind = "Chief", "tfReplicaSpecs", "TFJob"
		}
		if masters > 0 {
			specs[mName] = map[string]any{"replicas": i64(masters)}
		}
		declared := max(1, workers-w.ScaledDown)
		specs[wName] = map[string]any{"replicas": i64(declared)}
		spec := map[string]any{field: specs}
		want := int32(masters + declared)
		if w.ElasticMin > 0 && kind == "PyTorchJob" {
			spec["elasticPolicy"] = map[string]any{"minReplicas": i64(w.ElasticMin)}
			want = int32(w.ElasticMin)
		}
		if w.MinAvailable > 0 {
			spec["runPolicy"] = map[string]any{"schedulingPolicy": map[string]any{"minAvailable": i64(w.MinAvailable)}}
			want = int32(w.MinAvailable)
		}
		var top *unstructured.Unstructured
		if w.Kind == "workflow_pytorch" {
			top = c18Obj("argoproj.io/v1alpha1", "Workflow", w.Name+"-wf", w.TopLabels, nil, nil, nil)
			b.owners = append(b.owners, top)
		}
		o := c18Obj("kubeflow.org/v1", kind, w.Name, w.OwnerLabels, w.OwnerAnnots, top, spec)
		b.owners, b.effective = append(b.owners, o), o
		b.minMember[shared] = want
		idx := 0
		for i := 0; i < masters; i++ {
			add(c18BuildPod(w, fmt.Sprintf("%s-master-%d", w.Name, i), map[string]string{"training.kubeflow.org/replica-type": strings.ToLower(mName), "training.kubeflow.org/replica-index": fmt.Sprint(i)}, o), shared)
		}
		for i := 0; i < workers; i++ {
			add(c18BuildPod(w, fmt.Sprintf("%s-worker-%d", w.Name, i), map[string]string{"training.kubeflow.org/replica-type": "worker", "training.kubeflow.org/replica-index": fmt.Sprint(i)}, o), shared)
			idx++
		}
	case "mpi":
		workers := max(1, n-1)
		spec := map[string]any{"mpiReplicaSpecs": map[string]any{"Launcher": map[string]any{"replicas": i64(1)}, "Worker": map[string]any{"replicas": i64(workers)}}}
		want := int32(workers + 1)
		if w.MinAvailable > 0 {
			spec["runPolicy"] = map[string]any{"schedulingPolicy": map[string]any{"minAvailable": i64(w.MinAvailable)}}
			want = int32(w.MinAvailable)
		}
		if w.Delayed {
			spec["launcherCreationPolicy"] = "WaitForWorkersReady"
		}
		o := c18Obj("kubeflow.org/v2beta1", "MPIJob", w.Name, w.OwnerLabels, w.OwnerAnnots, nil, spec)
		b.owners, b.effective = append(b.owners, o), o
		if !w.Delayed {
			b.minMember[shared] = want
		}
		// pod 0 is the launcher
		add(c18BuildPod(w, w.Name+"-launcher", map[string]string{"training.kubeflow.org/job-name": w.Name, "training.kubeflow.org/job-role": "launcher"}, o), shared)
		for i := 0; i < workers; i++ {
			add(c18BuildPod(w, fmt.Sprintf("%s-worker-%d", w.Name, i), map[string]string{"training.kubeflow.org/job-name": w.Name, "training.kubeflow.org/job-role": "worker"}, o), shared)
		}
	case "jobset", "trainjob":
		par, comp, rep := max(1, w.Parallelism), w.Completions, max(1, w.RJReplicas)
		tmpl := map[string]any{"parallelism": i64(par)}
		per := par
		if comp > 0 {
			tmpl["completions"] = i64(comp)
			if comp < per {
				per = comp
			}
		}
		rjs := []any{
			map[string]any{"name": "a", "replicas": i64(rep), "template": map[string]any{"spec": tmpl}},
			map[string]any{"name": "b", "replicas": i64(1), "template": map[string]any{"spec": map[string]any{"parallelism": i64(1)}}},
		}
		spec := map[string]any{"replicatedJobs": rjs}
		if w.AnyOrder {
			spec["startupPolicy"] = map[string]any{"startupPolicyOrder": "AnyOrder"}
		}
		var top *unstructured.Unstructured
		if w.Kind == "trainjob" {
			top = c18Obj("trainer.kubeflow.org/v1alpha1", "TrainJob", w.Name+"-tj", w.TopLabels, nil, nil, nil)
			b.owners = append(b.owners, top)
		}
		js := c18Obj("jobset.x-k8s.io/v1alpha2", "JobSet", w.Name, w.OwnerLabels, w.OwnerAnnots, top, spec)
		b.owners, b.effective = append(b.owners, js), js
		var la, lb map[string]string
		if w.ChildMetaDiffers {
			la = map[string]string{"priorityClassName": "build", "kai.scheduler/preemptibility": "non-preemptible"}
			lb = map[string]string{"priorityClassName": "train"}
		}
		ja := c18Obj("batch/v1", "Job", w.Name+"-a-0", la, nil, js, map[string]any{"parallelism": i64(par)})
		jb := c18Obj("batch/v1", "Job", w.Name+"-b-0", lb, nil, js, map[string]any{"parallelism": i64(1)})
		b.owners = append(b.owners, ja, jb)
		keyA, keyB := shared+"/a", shared+"/b"
		if w.AnyOrder {
			keyA, keyB = shared, shared
			b.minMember[shared] = int32(rep*per + 1)
		} else {
			b.minMember[keyA] = int32(rep * per)
			b.minMember[keyB] = 1
		}
		for i := 0; i < max(1, n-1); i++ {
			add(c18BuildPod(w, fmt.Sprintf("%s-a-0-%d", w.Name, i), map[string]string{"jobset.sigs.k8s.io/jobset-name": w.Name, "jobset.sigs.k8s.io/replicatedjob-name": "a"}, ja), keyA)
		}
		add(c18BuildPod(w, w.Name+"-b-0-0", map[string]string{"jobset.sigs.k8s.io/jobset-name": w.Name, "jobset.sigs.k8s.io/replicatedjob-name": "b"}, jb), keyB)
	case "workflow_pod": // argo workflow step pods: the workflow is skipped, every pod stands alone
		wf := c18Obj("argoproj.io/v1alpha1", "Workflow", w.Name, w.OwnerLabels, w.OwnerAnnots, nil, nil)
		b.owners, b.effective = append(b.owners, wf), wf
		for i := 0; i < n; i++ {
			name := fmt.Sprintf("%s-%d", w.Name, i)
			add(c18BuildPod(w, name, nil, wf), name)
			b.minMember[name] = 1
		}
	case "notebook":
		nb := c18Obj("kubeflow.org/v1beta1", "Notebook", w.Name, w.OwnerLabels, w.OwnerAnnots, nil, nil)
		sts := c18Obj("apps/v1", "StatefulSet", w.Name+"-sts", nil, nil, nb, nil)
		b.owners, b.effective = append(b.owners, nb, sts), nb
		for i := 0; i < n; i++ {
			add(c18BuildPod(w, fmt.Sprintf("%s-%d", w.Name, i), nil, sts), shared)
		}
		b.minMember[shared] = 1
	case "lws": // LeaderCreated start-up: one pod group per replica group (leader + its workers)
		size := max(1, w.GroupSize)
		lws := c18Obj("leaderworkerset.x-k8s.io/v1", "LeaderWorkerSet", w.Name, w.OwnerLabels, w.OwnerAnnots, nil,
			map[string]any{"replicas": i64(2), "startupPolicy": "LeaderCreated", "leaderWorkerTemplate": map[string]any{"size": i64(size)}})
		lsts := c18Obj("apps/v1", "StatefulSet", w.Name, nil, nil, lws, nil)
		b.owners, b.effective = append(b.owners, lws, lsts), lws
		groups := 2
		for g := 0; g < groups; g++ {
			key := fmt.Sprintf("%s/g%d", shared, g)
			b.minMember[key] = int32(size)
			ll := map[string]string{"leaderworkerset.sigs.k8s.io/name": w.Name, "leaderworkerset.sigs.k8s.io/group-index": fmt.Sprint(g), "leaderworkerset.sigs.k8s.io/worker-index": "0"}
			leader := c18BuildPod(w, fmt.Sprintf("%s-%d", w.Name, g), ll, lsts)
			add(leader, key)
			if size > 1 {
				lu := &unstructured.Unstructured{Object: map[string]any{"apiVersion": "v1", "kind": "Pod"}}
				lu.SetName(leader.Name)
				lu.SetUID(leader.UID)
				wsts := c18Obj("apps/v1", "StatefulSet", fmt.Sprintf("%s-%d", w.Name, g), nil, nil, nil, nil)
				// the worker statefulset is owned by the leader pod, which is owned by the leader statefulset
				wsts.SetOwnerReferences([]metav1.OwnerReference{c18Ref(lu)})
				wsts.SetUID(types.UID(fmt.Sprintf("uid-wsts-%s-%d", w.Name, g)))
				b.owners = append(b.owners, wsts)
				for i := 1; i < size && i < 3; i++ {
					wl := map[string]string{"leaderworkerset.sigs.k8s.io/name": w.Name, "leaderworkerset.sigs.k8s.io/group-index": fmt.Sprint(g), "leaderworkerset.sigs.k8s.io/worker-index": fmt.Sprint(i)}
					add(c18BuildPod(w, fmt.Sprintf("%s-%d-%d", w.Name, g, i), wl, wsts), key)
				}
			}
		}
	case "raycluster", "rayjob", "rayservice":
		// KubeRay: the RayCluster owns all pods; a RayJob / RayService owns the RayCluster and names it in its status.
		// minMember = head + per worker group (minReplicas if set, else replicas) x numOfHosts; suspended groups count nothing
		workers := max(1, n-1)
		hosts := max(1, min(2, w.GroupSize))
		minRep := min(w.ElasticMin, workers)
		wg := map[string]any{"groupName": "wg", "replicas": i64(workers), "numOfHosts": i64(hosts), "template": map[string]any{}}
		per := workers
		if minRep > 0 {
			wg["minReplicas"] = i64(minRep)
			per = minRep
		}
		wgs := []any{wg}
		if w.AnyOrder {
			wgs = append(wgs, map[string]any{"groupName": "idle", "replicas": i64(2), "suspended": true, "template": map[string]any{}})
		}
		if w.Delayed && w.Kind == "raycluster" {
			wgs = append(wgs, map[string]any{"replicas": i64(0), "template": map[string]any{}})
		}
		rcSpec := map[string]any{"headGroupSpec": map[string]any{"template": map[string]any{}}, "workerGroupSpecs": wgs}
		var top, rc *unstructured.Unstructured
		switch w.Kind {
		case "raycluster":
			rc = c18Obj("ray.io/v1", "RayCluster", w.Name, w.OwnerLabels, w.OwnerAnnots, nil, rcSpec)
			b.owners, b.effective = append(b.owners, rc), rc
		case "rayjob":
			top = c18Obj("ray.io/v1", "RayJob", w.Name, w.OwnerLabels, w.OwnerAnnots, nil, map[string]any{"entrypoint": "python x.py"})
			top.Object["status"] = map[string]any{"rayClusterName": w.Name + "-rc"}
		case "rayservice":
			top = c18Obj("ray.io/v1", "RayService", w.Name, w.OwnerLabels, w.OwnerAnnots, nil, map[string]any{})
			st := "activeServiceStatus"
			if w.Delayed {
				st = "pendingServiceStatus"
			}
			top.Object["status"] = map[string]any{st: map[string]any{"rayClusterName": w.Name + "-rc"}}
		}
		if top != nil {
			rc = c18Obj("ray.io/v1", "RayCluster", w.Name+"-rc", nil, nil, top, rcSpec)
			b.owners, b.effective = append(b.owners, top, rc), top
		}
		b.minMember[shared] = int32(1 + per*hosts)
		add(c18BuildPod(w, w.Name+"-head", map[string]string{"ray.io/group": "headgroup", "ray.io/node-type": "head"}, rc), shared)
		for i := 0; i < min(4, workers*hosts); i++ {
			add(c18BuildPod(w, fmt.Sprintf("%s-wg-%d", w.Name, i), map[string]string{"ray.io/group": "wg", "ray.io/node-type": "worker"}, rc), shared)
		}
	case "knative":
		// Service -> Configuration -> Revision -> Deployment -> ReplicaSet -> pods; one gang per revision, minMember = min-scale
		svc := c18Obj("serving.knative.dev/v1", "Service", w.Name, w.TopLabels, nil, nil, map[string]any{})
		cfgo := c18Obj("serving.knative.dev/v1", "Configuration", w.Name, nil, nil, svc, map[string]any{})
		ra := copyMap(w.OwnerAnnots)
		want := int32(1)
		if w.ElasticMin > 0 {
			ra["autoscaling.knative.dev/min-scale"] = fmt.Sprint(w.ElasticMin)
			want = int32(w.ElasticMin)
		} else if w.Delayed {
			ra["autoscaling.knative.dev/min-scale"] = "many" // not a number: documented fallback 1
		}
		rev := c18Obj("serving.knative.dev/v1", "Revision", w.Name+"-00001", w.OwnerLabels, ra, cfgo, map[string]any{})
		dep := c18Obj("apps/v1", "Deployment", w.Name+"-00001-deployment", nil, nil, rev, map[string]any{"replicas": i64(n)})
		rs := c18Obj("apps/v1", "ReplicaSet", w.Name+"-00001-deployment-rs", nil, nil, dep, map[string]any{"replicas": i64(n)})
		b.owners, b.effective = append(b.owners, svc, cfgo, rev, dep, rs), rev
		b.minMember[shared] = want
		for i := 0; i < n; i++ {
			add(c18BuildPod(w, fmt.Sprintf("%s-%d", w.Name, i), map[string]string{"serving.knative.dev/revision": rev.GetName()}, rs), shared)
		}
	case "grove", "dynamo":
		// the Grove grouper rejects an unparsable preemptibility label (the pod stays ungrouped for good), the other groupers
		// ignore it; a rejected input is not a grouping to judge, so these workloads only carry valid values (DESIGN 0.5)
		for _, m := range []map[string]string{w.OwnerLabels, w.TopLabels, w.PodLabels} {
			if v, ok := m["kai.scheduler/preemptibility"]; ok && v != "preemptible" && v != "non-preemptible" {
				delete(m, "kai.scheduler/preemptibility")
			}
		}
		// Grove: PodCliqueSet -> PodClique -> pods; the PodGang (owned by the PodCliqueSet) defines the gang: one sub-group per
		// clique with its minimum and pod references, optionally under a parent group. Dynamo: a DynamoGraphDeployment on top.
		var top *unstructured.Unstructured
		pcsLabels, pcsAnnots := w.OwnerLabels, w.OwnerAnnots
		if w.Kind == "dynamo" {
			top = c18Obj("nvidia.com/v1alpha1", "DynamoGraphDeployment", w.Name+"-dgd", w.TopLabels, nil, nil, map[string]any{})
			b.owners = append(b.owners, top)
		}
		pcs := c18Obj("grove.io/v1alpha1", "PodCliqueSet", w.Name, pcsLabels, pcsAnnots, top, map[string]any{"replicas": i64(1)})
		b.owners, b.effective = append(b.owners, pcs), pcs
		gang := w.Name + "-0"
		na := max(1, n-1)
		minA := max(1, min(na, w.ElasticMin))
		var refsA, refsB []any
		for i := 0; i < na; i++ {
			refsA = append(refsA, map[string]any{"namespace": NS, "name": fmt.Sprintf("%s-0-a-%d", w.Name, i)})
		}
		refsB = append(refsB, map[string]any{"namespace": NS, "name": w.Name + "-0-b-0"})
		gspec := map[string]any{"podgroups": []any{
			map[string]any{"name": gang + "-a", "minReplicas": i64(minA), "podReferences": refsA},
			map[string]any{"name": gang + "-b", "minReplicas": i64(1), "podReferences": refsB},
		}}
		if w.PodPriority != "" {
			gspec["priorityClassName"] = w.PodPriority
		}
		var gangAnnots map[string]string
		if w.AnyOrder {
			gangAnnots = map[string]string{"grove.io/topology-name": "topo"}
			gspec["topologyConstraint"] = map[string]any{"packConstraint": map[string]any{"preferred": "rack"}}
			gspec["topologyConstraintGroupConfigs"] = []any{map[string]any{"name": "both", "podGroupNames": []any{gang + "-a", gang + "-b"},
				"topologyConstraint": map[string]any{"packConstraint": map[string]any{"required": "zone"}}}}
		}
		pg := c18Obj("scheduler.grove.io/v1alpha1", "PodGang", gang, nil, gangAnnots, pcs, gspec)
		ca := c18Obj("grove.io/v1alpha1", "PodClique", gang+"-a", nil, nil, pcs, map[string]any{"replicas": i64(na)})
		cb := c18Obj("grove.io/v1alpha1", "PodClique", gang+"-b", nil, nil, pcs, map[string]any{"replicas": i64(1)})
		b.owners = append(b.owners, pg, ca, cb)
		b.minMember[shared] = int32(minA + 1)
		for i := 0; i < na; i++ {
			add(c18BuildPod(w, fmt.Sprintf("%s-0-a-%d", w.Name, i), map[string]string{"grove.io/podgang": gang}, ca), shared)
		}
		add(c18BuildPod(w, w.Name+"-0-b-0", map[string]string{"grove.io/podgang": gang}, cb), shared)
	case "jax", "xgboost":
		kind, field := "JAXJob", "jaxReplicaSpecs"
		masters := 0
		if w.Kind == "xgboost" {
			kind, field = "XGBoostJob", "xgbReplicaSpecs"
			masters = 1 // required by the XGBoost grouper
		}
		workers := max(1, n-masters)
		specs := map[string]any{"Worker": map[string]any{"replicas": i64(workers)}}
		if masters > 0 {
			specs["Master"] = map[string]any{"replicas": i64(masters)}
		}
		spec := map[string]any{field: specs}
		want := int32(masters + workers)
		if w.MinAvailable > 0 {
			spec["runPolicy"] = map[string]any{"schedulingPolicy": map[string]any{"minAvailable": i64(w.MinAvailable)}}
			want = int32(w.MinAvailable)
		}
		o := c18Obj("kubeflow.org/v1", kind, w.Name, w.OwnerLabels, w.OwnerAnnots, nil, spec)
		b.owners, b.effective = append(b.owners, o), o
		b.minMember[shared] = want
		for i := 0; i < masters; i++ {
			add(c18BuildPod(w, fmt.Sprintf("%s-master-%d", w.Name, i), map[string]string{"training.kubeflow.org/replica-type": "master", "training.kubeflow.org/replica-index": fmt.Sprint(i)}, o), shared)
		}
		for i := 0; i < workers; i++ {
			add(c18BuildPod(w, fmt.Sprintf("%s-worker-%d", w.Name, i), map[string]string{"training.kubeflow.org/replica-type": "worker", "training.kubeflow.org/replica-index": fmt.Sprint(i)}, o), shared)
		}
	case "amljob":
		o := c18Obj("amlarc.azureml.com/v1alpha1", "AmlJob", w.Name, w.OwnerLabels, w.OwnerAnnots, nil,
			map[string]any{"job": map[string]any{"options": map[string]any{"envs": map[string]any{"AZUREML_NODE_COUNT": i64(n)}}}})
		b.owners, b.effective = append(b.owners, o), o
		b.minMember[shared] = int32(n)
		for i := 0; i < n; i++ {
			add(c18BuildPod(w, fmt.Sprintf("%s-%d", w.Name, i), nil, o), shared)
		}
	case "runaijob", "seldon", "vmi", "spotrequest", "taskrun", "devworkspace":
		api, kind := map[string][2]string{"runaijob": {"run.ai/v1", "RunaiJob"}, "seldon": {"machinelearning.seldon.io/v1", "SeldonDeployment"},
			"vmi": {"kubevirt.io/v1", "VirtualMachineInstance"}, "spotrequest": {"egx.nvidia.io/v1", "SPOTRequest"},
			"taskrun": {"tekton.dev/v1", "TaskRun"}, "devworkspace": {"workspace.devfile.io/v1alpha2", "DevWorkspace"}}[w.Kind][0], ""
		kind = map[string]string{"runaijob": "RunaiJob", "seldon": "SeldonDeployment", "vmi": "VirtualMachineInstance", "spotrequest": "SPOTRequest",
			"taskrun": "TaskRun", "devworkspace": "DevWorkspace"}[w.Kind]
		var top *unstructured.Unstructured
		if w.Kind == "taskrun" { // a TaskRun of a PipelineRun: the PipelineRun is the grouping owner
			top = c18Obj("tekton.dev/v1", "PipelineRun", w.Name+"-pr", w.OwnerLabels, w.OwnerAnnots, nil, map[string]any{})
			b.owners, b.effective = append(b.owners, top), top
			o := c18Obj(api, kind, w.Name, nil, nil, top, map[string]any{})
			b.owners = append(b.owners, o)
			for i := 0; i < n; i++ {
				add(c18BuildPod(w, fmt.Sprintf("%s-%d", w.Name, i), nil, o), shared)
			}
			b.minMember[shared] = 1
			break
		}
		o := c18Obj(api, kind, w.Name, w.OwnerLabels, w.OwnerAnnots, nil, map[string]any{"parallelism": i64(1)})
		b.owners, b.effective = append(b.owners, o), o
		b.minMember[shared] = 1
		for i := 0; i < n; i++ {
			add(c18BuildPod(w, fmt.Sprintf("%s-%d", w.Name, i), nil, o), shared)
		}
	default:
		panic("c18: unknown kind " + w.Kind)
	}
	return b
}

// ---- gate (API-call granularity interleaving of concurrent reconciles) ----

type c18Parked struct {
	id     string
	desc   string
	resume chan struct{}
}

type c18Gate struct {
	mu      sync.Mutex
	enabled bool
	waiting []*c18Parked
}

func (g *c18Gate) park(id, desc string) {
	g.mu.Lock()
	if !g.enabled || id == "" {
		g.mu.Unlock()
		return
	}
	p := &c18Parked{id: id, desc: desc, resume: make(chan struct{}, 1)}
	g.waiting = append(g.waiting, p)
	g.mu.Unlock()
	<-p.resume
}

// ---- simulation ----

type c18Sim struct {
	mid     []func() // foreign edits to apply while reconciles are in flight
	midAt   []int    // ... just before the n-th resumed API call of the current drain
	resumed int
	api     *SimAPI
	client  client.Client
	rec     *podgrouper.PodReconciler
	gate    *c18Gate
	built   []*c18Built
	queue   map[string]bool
	snap    map[string]string
	writes  int
	calls   int
	failAt  int
	failHow string
	lastWrite string
	res     *Result
	log     []string
}

func (s *c18Sim) call(verb, what string, mutating bool) (failBefore, failAfter bool) {
	s.gate.park(currentReconcile(), verb+" "+what)
	s.gate.mu.Lock()
	defer s.gate.mu.Unlock()
	s.calls++
	if mutating {
		s.writes++
		s.res.Probes["c18_writes"]++
		s.lastWrite = verb + " " + what
	}
	if s.failAt > 0 {
		s.failAt--
		if s.failAt == 0 {
			if s.failHow == "after" && mutating {
				s.res.Faults["lost response "+verb]++
				return false, true
			}
			s.res.Faults["error "+verb]++
			return true, false
		}
	}
	return false, false
}

func c18Name(o client.Object) string {
	return fmt.Sprintf("%T/%s", o, o.GetName())
}

func (s *c18Sim) observe() {
	cur := map[string]string{}
	for _, p := range s.api.Pods() {
		if p.Spec.SchedulerName != c18Scheduler {
			continue
		}
		p = p.DeepCopy()
		p.ResourceVersion = ""
		b, _ := json.Marshal(p)
		cur[p.Name] = string(b)
	}
	for k, v := range cur {
		if old, ok := s.snap[k]; !ok || old != v {
			s.queue[k] = true
		}
	}
	for k := range s.snap {
		if _, ok := cur[k]; !ok {
			s.queue[k] = true // delete event
		}
	}
	s.snap = cur
}

// reconcileBatch takes up to k distinct keys off the queue and runs their reconciles concurrently,
// releasing one parked API call at a time in tape order.
func (s *c18Sim) reconcileBatch(k int, tape *[]int) bool {
	if len(s.queue) == 0 {
		return false
	}
	next := func(n int) int {
		if n <= 1 || len(*tape) == 0 {
			if len(*tape) > 0 {
				*tape = (*tape)[1:]
			}
			return 0
		}
		i := (*tape)[0] % n
		*tape = (*tape)[1:]
		return i
	}
	var batch []string
	for len(batch) < k && len(s.queue) > 0 {
		keys := sortedKeys(s.queue)
		key := keys[next(len(keys))]
		delete(s.queue, key)
		batch = append(batch, key)
	}
	type outcome struct {
		key string
		err error
	}
	done := make(chan outcome, len(batch))
	s.gate.mu.Lock()
	s.gate.enabled = len(batch) > 1
	s.gate.mu.Unlock()
	for _, key := range batch {
		key := key
		go func() {
			curRecMu.Lock()
			curRec[goid()] = key
			curRecMu.Unlock()
			defer func() {
				curRecMu.Lock()
				delete(curRec, goid())
				curRecMu.Unlock()
			}()
			_, err := s.rec.Reconcile(context.Background(), ctrl.Request{NamespacedName: types.NamespacedName{Namespace: NS, Name: key}})
			done <- outcome{key, err}
		}()
	}
	finished := 0
	for steps := 0; finished < len(batch); steps++ {
		synctest.Wait()
		for {
			select {
			case o := <-done:
				finished++
				s.res.Probes["c18_reconciles"]++
				if o.err != nil {
					s.res.Probes["c18_reconcile_errors"]++
					s.log = append(s.log, fmt.Sprintf("reconcile %s: %v", o.key, o.err))
					s.queue[o.key] = true
				}
				continue
			default:
			}
			break
		}
		if finished == len(batch) {
			break
		}
		s.gate.mu.Lock()
		if len(s.gate.waiting) == 0 {
			s.gate.mu.Unlock()
			if steps > 10000 {
				panic("c18: reconciles neither finish nor park")
			}
			// a reconcile that neither finished nor parked at the gate is waiting for time to pass (a client-side retry
			// back-off): let simulated time advance
			time.Sleep(10 * time.Millisecond)
			continue
		}
		sort.Slice(s.gate.waiting, func(i, j int) bool { return s.gate.waiting[i].id < s.gate.waiting[j].id })
		i := next(len(s.gate.waiting))
		p := s.gate.waiting[i]
		s.gate.waiting = append(s.gate.waiting[:i], s.gate.waiting[i+1:]...)
		if len(batch) > 1 {
			s.res.Probes["c18_interleaved_calls"]++
		}
		s.gate.mu.Unlock()
		s.resumed++
		for mi := 0; mi < len(s.mid); mi++ {
			if s.midAt[mi] == s.resumed {
				f := s.mid[mi]
				s.mid = append(s.mid[:mi], s.mid[mi+1:]...)
				s.midAt = append(s.midAt[:mi], s.midAt[mi+1:]...)
				mi--
				f()
			}
		}
		p.resume <- struct{}{}
	}
	s.gate.mu.Lock()
	s.gate.enabled = false
	s.gate.mu.Unlock()
	s.observe()
	return true
}

func (s *c18Sim) drain(k, maxBatches int, tape *[]int) bool {
	for i := 0; i < maxBatches; i++ {
		if !s.reconcileBatch(k, tape) {
			return true
		}
	}
	return len(s.queue) == 0
}

type c18Final struct {
	PodGroup map[string]string `json:"pod_group"` // pod -> pod group
	SubGroup map[string]string `json:"sub_group"`
	Groups   map[string]string `json:"groups"` // pod group -> essence (spec, labels, annotations, owner)
	Derived  map[string]string `json:"derived"` // pod group -> the part of the essence that no other actor owns (no queue)
}

// c18Essence is what C18 says must not depend on the reconcile order: minimum member count, queue,
// priority class, preemptibility and sub-groups (the name is the map key).
func c18Essence(g *schedv2alpha2.PodGroup) string {
	sub := g.Spec.SubGroups
	if len(sub) == 0 {
		sub = nil
	}
	b, _ := json.Marshal(map[string]any{"minMember": g.Spec.MinMember, "queue": g.Spec.Queue, "priorityClassName": g.Spec.PriorityClassName,
		"preemptibility": g.Spec.Preemptibility, "subGroups": sub})
	return string(b)
}

func runC18(t *testing.T, sc *C18Script) (res *Result) {
	res = &Result{Probes: map[string]int{}, Faults: map[string]int{}}
	main := res
	run := func(tapeSalt int, k int, check bool) (fin *c18Final) {
		res := main
		if !check { // the differential runs only contribute their final state
			res = &Result{Probes: map[string]int{}, Faults: map[string]int{}}
			defer func() {
				if res.Panic != "" {
					main.Panic = res.Panic
				}
			}()
		}
		func() {
			defer func() {
				if p := recover(); p != nil {
					if msg := fmt.Sprint(p); !strings.Contains(msg, "deadlock: main bubble goroutine has exited") {
						res.Panic = msg
					}
				}
			}()
			synctest.Test(t, func(t *testing.T) {
				defer func() {
					if p := recover(); p != nil {
						res.Panic = fmt.Sprintf("%v\n%s", p, debug.Stack())
					}
				}()
				fin = c18Body(sc, res, tapeSalt, k, check)
			})
		}()
		return
	}
	base := run(0, 0, true)
	if res.Panic != "" || base == nil {
		return
	}
	res.StateHash = hashOf(base)
	res.NonTrivial = res.Probes["c18_writes"] > 0
	res.Cycles = res.Probes["c18_reconciles"]
	// order independence is judged between fault-free executions: an injected fault lands on a
	// different call in a different order (e.g. a failed PriorityClass read silently falls back to the
	// default class), which is not what C18 is about
	for _, st := range sc.Steps {
		if st.Kind == "fail" {
			if base = run(0, 0, false); res.Panic != "" || base == nil {
				return
			}
			break
		}
	}
	// differential: the same history of external events under other reconcile orders / concurrency. An edit that lands
	// in the middle of a reconcile hits different states under different orders (the pod group may not exist yet), so
	// scripts with such edits are not compared across orders (foreign fields, idempotence and the fresh-world oracle still apply)
	alts := []struct{ salt, k int }{{1, 1}, {2, 3}}
	for _, st := range sc.Steps {
		if st.Kind == "foreign_mid" {
			alts = nil
			res.Probes["c18_differential_skipped_mid_edit"]++
		}
	}
	for _, alt := range alts {
		other := run(alt.salt, alt.k, false)
		if res.Panic != "" || other == nil {
			return
		}
		res.Probes["c18_differential_runs"]++
		if d := c18Diff(base, other); d != "" && len(res.Violations) < 20 {
			res.Violations = append(res.Violations, Violation{Prop: "C18", Rule: "order_dependent", Detail: fmt.Sprintf("reconcile order salt=%d k=%d: %s", alt.salt, alt.k, d)})
		}
	}
	// history independence: grouping the final cluster from scratch (same owners incl. their label edits, the pods that
	// are alive at the end, no pod groups, pods unassigned) must give the same groups - except for the fields other
	// actors own (queue after creation, foreign edits)
	live := map[string]bool{}
	for p := range base.PodGroup {
		live[p] = true
	}
	fresh := &C18Script{Workloads: sc.Workloads, DefaultsCM: sc.DefaultsCM}
	deleted := map[string]bool{}
	for _, st := range sc.Steps {
		switch st.Kind {
		case "owner_label", "schedule":
			fresh.Steps = append(fresh.Steps, st)
		case "foreign_mid": // its owner-label part belongs to the workload's final shape
			fresh.Steps = append(fresh.Steps, C18Step{Kind: "owner_label", W: st.W, Arg: "priorityClassName", Val: []string{"high", "build", ""}[st.N%3]})
		}
	}
	var creates []C18Step
	for wi := range sc.Workloads {
		b := c18Build(&sc.Workloads[wi])
		var idx []int
		for pi, bp := range b.pods {
			if live[bp.obj.Name] {
				idx = append(idx, pi)
			}
		}
		if len(idx) > 0 {
			creates = append(creates, C18Step{Kind: "create", W: wi, Pods: idx})
		}
	}
	_ = deleted
	// schedule steps need their pods to exist: creates first, then label edits / scheduling, then one drain
	fresh.Steps = append(append(creates, fresh.Steps...), C18Step{Kind: "drain", K: 1})
	freshRes := &Result{Probes: map[string]int{}, Faults: map[string]int{}}
	var ff *c18Final
	func() {
		defer func() {
			if p := recover(); p != nil {
				if msg := fmt.Sprint(p); !strings.Contains(msg, "deadlock: main bubble goroutine has exited") {
					res.Panic = msg
				}
			}
		}()
		synctest.Test(t, func(t *testing.T) {
			defer func() {
				if p := recover(); p != nil {
					res.Panic = fmt.Sprintf("%v\n%s", p, debug.Stack())
				}
			}()
			ff = c18Body(fresh, freshRes, 0, 1, false)
		})
	}()
	if res.Panic != "" || ff == nil {
		return
	}
	res.Probes["c18_fresh_world_compared"]++
	// a bare pod is skipped by the reconciler once it is assigned: whatever its first reconcile wrote (e.g. the default
	// priority class after a failed PriorityClass read) is never revisited
	hasFaults := false
	for _, st := range sc.Steps {
		if st.Kind == "fail" {
			hasFaults = true
		}
	}
	barePodGroup := map[string]bool{}
	for wi := range sc.Workloads {
		if sc.Workloads[wi].Kind != "pod" && sc.Workloads[wi].Kind != "spark" {
			continue
		}
		for _, bp := range c18Build(&sc.Workloads[wi]).pods {
			if g := base.PodGroup[bp.obj.Name]; g != "" {
				barePodGroup[g] = true
			}
		}
	}
	sfxFor := func(g string) string {
		if hasFaults && barePodGroup[g] {
			return "_bare_pod_after_api_fault"
		}
		return ""
	}
	for _, p := range sortedKeys(base.PodGroup) {
		if fp, ok := ff.PodGroup[p]; ok && fp != base.PodGroup[p] && len(res.Violations) < 20 {
			res.Violations = append(res.Violations, Violation{Prop: "C18", Rule: "history_dependent_assignment", Detail: fmt.Sprintf("pod %s is in pod group %q after the history, but grouping the same final cluster from scratch puts it in %q", p, base.PodGroup[p], fp)})
		}
	}
	for _, g := range sortedKeys(ff.Derived) {
		if got, ok := base.Derived[g]; !ok {
			if len(res.Violations) < 20 {
				res.Violations = append(res.Violations, Violation{Prop: "C18", Rule: "history_dependent_group", Detail: fmt.Sprintf("pod group %s does not exist (or has no live pod) after the history, but grouping the same final cluster from scratch creates it", g)})
			}
		} else if got != ff.Derived[g] && len(res.Violations) < 20 {
			res.Violations = append(res.Violations, Violation{Prop: "C18", Rule: "history_dependent_group" + sfxFor(g), Detail: fmt.Sprintf("pod group %s after the history: %s; grouping the same final cluster from scratch: %s", g, got, ff.Derived[g])})
		}
	}
	return
}

func hashOf(v any) string {
	b, _ := json.Marshal(v)
	return fmt.Sprintf("%x", fnv64(string(b)))
}

func fnv64(s string) uint64 {
	h := uint64(14695981039346656037)
	for i := 0; i < len(s); i++ {
		h ^= uint64(s[i])
		h *= 1099511628211
	}
	return h
}

func c18Diff(a, b *c18Final) string {
	for _, p := range sortedKeys(a.PodGroup) {
		if a.PodGroup[p] != b.PodGroup[p] {
			return fmt.Sprintf("pod %s is in group %q in one order and %q in the other", p, a.PodGroup[p], b.PodGroup[p])
		}
		if a.SubGroup[p] != b.SubGroup[p] {
			return fmt.Sprintf("pod %s has sub-group %q in one order and %q in the other", p, a.SubGroup[p], b.SubGroup[p])
		}
	}
	if len(a.PodGroup) != len(b.PodGroup) {
		return fmt.Sprintf("%d pods assigned in one order, %d in the other", len(a.PodGroup), len(b.PodGroup))
	}
	for _, g := range sortedKeys(a.Groups) {
		if o, ok := b.Groups[g]; !ok {
			return fmt.Sprintf("pod group %s exists in one order only", g)
		} else if o != a.Groups[g] {
			return fmt.Sprintf("pod group %s differs: %s vs %s", g, a.Groups[g], o)
		}
	}
	if len(a.Groups) != len(b.Groups) {
		return fmt.Sprintf("%d pod groups in one order, %d in the other", len(a.Groups), len(b.Groups))
	}
	return ""
}

func c18Body(sc *C18Script, res *Result, salt, forceK int, check bool) *c18Final {
	fail := func(rule, format string, args ...any) {
		if check && len(res.Violations) < 20 {
			res.Violations = append(res.Violations, Violation{Prop: "C18", Rule: rule, Detail: fmt.Sprintf(format, args...)})
		}
	}
	var objs []runtime.Object
	for _, pc := range []struct {
		n string
		v int32
	}{{"train", 50}, {"build", 100}, {"inference", 125}, {"high", 200}} {
		objs = append(objs, &schedulingv1.PriorityClass{TypeMeta: metav1.TypeMeta{APIVersion: "scheduling.k8s.io/v1", Kind: "PriorityClass"}, ObjectMeta: metav1.ObjectMeta{Name: pc.n}, Value: pc.v})
	}
	if sc.DefaultsCM {
		objs = append(objs, &corev1.ConfigMap{TypeMeta: metav1.TypeMeta{APIVersion: "v1", Kind: "ConfigMap"}, ObjectMeta: metav1.ObjectMeta{Name: "defaults", Namespace: "kai"},
			Data: map[string]string{"types": `[{"typeName":"Deployment","group":"apps","priorityName":"build","preemptibility":"non-preemptible"},{"typeName":"PyTorchJob","group":"kubeflow.org","priorityName":"high","preemptibility":"preemptible"},{"typeName":"Widget","priorityName":"inference"}]`}})
	}
	api := NewSimAPI(objs)
	s := &c18Sim{api: api, gate: &c18Gate{}, queue: map[string]bool{}, snap: map[string]string{}, res: res}
	errInj := fmt.Errorf("simulated api failure")
	funcs := interceptor.Funcs{
		Get: func(ctx context.Context, c client.WithWatch, key client.ObjectKey, obj client.Object, opts ...client.GetOption) error {
			if fb, _ := s.call("get", fmt.Sprintf("%T/%s", obj, key.Name), false); fb {
				return errInj
			}
			if err := c.Get(ctx, key, obj, opts...); err != nil {
				return err
			}
			// controller-runtime's cache reader stamps the GVK on typed objects; the fake client does not
			if gvk, err := apiutil.GVKForObject(obj, Scheme()); err == nil {
				obj.GetObjectKind().SetGroupVersionKind(gvk)
			}
			return nil
		},
		List: func(ctx context.Context, c client.WithWatch, list client.ObjectList, opts ...client.ListOption) error {
			if fb, _ := s.call("list", fmt.Sprintf("%T", list), false); fb {
				return errInj
			}
			return c.List(ctx, list, opts...)
		},
		Create: func(ctx context.Context, c client.WithWatch, obj client.Object, opts ...client.CreateOption) error {
			fb, fa := s.call("create", c18Name(obj), true)
			if fb {
				return errInj
			}
			if err := c.Create(ctx, obj, opts...); err != nil || !fa {
				return err
			}
			return errInj
		},
		Update: func(ctx context.Context, c client.WithWatch, obj client.Object, opts ...client.UpdateOption) error {
			fb, fa := s.call("update", c18Name(obj), true)
			if fb {
				return errInj
			}
			if os.Getenv("KAISIM_DEBUG_C18") != "" {
				old := obj.DeepCopyObject().(client.Object)
				_ = c.Get(ctx, client.ObjectKeyFromObject(obj), old)
				ob, _ := json.Marshal(old)
				nb, _ := json.Marshal(obj)
				fmt.Printf("UPDATE %s\n  old %s\n  new %s\n", c18Name(obj), ob, nb)
			}
			if err := c.Update(ctx, obj, opts...); err != nil || !fa {
				return err
			}
			return errInj
		},
		Patch: func(ctx context.Context, c client.WithWatch, obj client.Object, patch client.Patch, opts ...client.PatchOption) error {
			fb, fa := s.call("patch", c18Name(obj), true)
			if fb {
				return errInj
			}
			if err := c.Patch(ctx, obj, patch, opts...); err != nil || !fa {
				return err
			}
			return errInj
		},
		Delete: func(ctx context.Context, c client.WithWatch, obj client.Object, opts ...client.DeleteOption) error {
			if fb, _ := s.call("delete", c18Name(obj), true); fb {
				return errInj
			}
			return c.Delete(ctx, obj, opts...)
		},
	}
	s.client = crfake.NewClientBuilder().WithScheme(Scheme()).WithObjectTracker(api.Tracker).WithInterceptorFuncs(funcs).Build()
	setup := crfake.NewClientBuilder().WithScheme(Scheme()).WithObjectTracker(api.Tracker).Build() // the "users": no gate, no faults
	cfg := podgrouper.Configs{NodePoolLabelKey: NodePoolKey, MaxConcurrentReconciles: 3, SearchForLegacyPodGroups: true, KnativeGangSchedule: true,
		SchedulerName: c18Scheduler, SchedulingQueueLabelKey: c18QueueLabel}
	if sc.DefaultsCM {
		cfg.DefaultConfigPerTypeConfigMapName, cfg.DefaultConfigPerTypeConfigMapNamespace = "defaults", "kai"
	}
	hub := pluginshub.NewDefaultPluginsHub(s.client, cfg.SearchForLegacyPodGroups, cfg.KnativeGangSchedule, cfg.SchedulingQueueLabelKey, cfg.NodePoolLabelKey,
		cfg.DefaultConfigPerTypeConfigMapName, cfg.DefaultConfigPerTypeConfigMapNamespace)
	s.rec = podgrouper.NewPodReconcilerForSim(s.client, Scheme(), cfg, hub, record.NewFakeRecorder(10000))

	ctx := context.Background()
	for i := range sc.Workloads {
		b := c18Build(&sc.Workloads[i])
		s.built = append(s.built, b)
		for _, o := range b.owners {
			must(setup.Create(ctx, o.DeepCopy()))
		}
	}
	created, deleted := map[string]bool{}, map[string]bool{}
	foreign := map[string]map[string]string{} // pod group -> field -> value set by another actor
	podOf := func(st C18Step) *c18Pod {
		if len(s.built) == 0 {
			return nil
		}
		b := s.built[st.W%len(s.built)]
		if len(st.Pods) == 0 {
			return &b.pods[0]
		}
		return &b.pods[st.Pods[0]%len(b.pods)]
	}
	tape := append([]int(nil), sc.Tape...)
	salted := func(t []int) []int {
		out := make([]int, len(t))
		for i, v := range t {
			out[i] = v + salt*(i+1)
		}
		if salt != 0 && len(out) < 24 {
			for i := len(out); i < 24; i++ {
				out = append(out, salt*(i+3))
			}
		}
		return out
	}
	tape = salted(tape)
	applyOwnerLabel := func(st C18Step) {
			b := s.built[st.W%len(s.built)]
			if b.effective == nil {
				return
			}
			if k := sc.Workloads[st.W%len(s.built)].Kind; (k == "grove" || k == "dynamo") && st.Arg == "kai.scheduler/preemptibility" &&
				st.Val != "" && st.Val != "preemptible" && st.Val != "non-preemptible" {
				return // rejected by the Grove grouper, see c18Build
			}
			o := b.effective.DeepCopy()
			if err := setup.Get(ctx, client.ObjectKeyFromObject(o), o); err != nil {
				return
			}
			l := o.GetLabels()
			if l == nil {
				l = map[string]string{}
			}
			if st.Val == "" {
				delete(l, st.Arg)
			} else {
				l[st.Arg] = st.Val
			}
			o.SetLabels(l)
			must(setup.Update(ctx, o))
	}
	applyForeign := func(st C18Step) {
			p := podOf(st)
			if p == nil {
				return
			}
			cur := api.Pod(NS, p.obj.Name)
			if cur == nil || cur.Annotations[PGAnnotation] == "" {
				return
			}
			g := &schedv2alpha2.PodGroup{}
			if err := setup.Get(ctx, types.NamespacedName{Namespace: NS, Name: cur.Annotations[PGAnnotation]}, g); err != nil {
				return
			}
			if g.Labels == nil {
				g.Labels = map[string]string{}
			}
			if g.Annotations == nil {
				g.Annotations = map[string]string{}
			}
			f := foreign[g.Name]
			if f == nil {
				f = map[string]string{}
				foreign[g.Name] = f
			}
			switch st.Arg {
			case "queue":
				g.Spec.Queue = st.Val
				f["queue"] = st.Val
			case "mark":
				g.Spec.MarkUnschedulable = boolPtr(st.Val == "true")
				f["mark"] = fmt.Sprint(st.Val == "true")
			case "backoff":
				n := int32(len(st.Val))
				g.Spec.SchedulingBackoff = &n
				f["backoff"] = fmt.Sprint(n)
			case "nodepool_set":
				g.Labels[NodePoolKey] = st.Val
				f["nodepool"] = st.Val
			case "nodepool_del":
				delete(g.Labels, NodePoolKey)
				f["nodepool"] = "<absent>"
			case "queue_label":
				g.Labels[c18QueueLabel] = st.Val
				f["queue_label"] = st.Val
			case "extra":
				g.Labels["foreign/label"] = st.Val
				g.Annotations["foreign/annotation"] = st.Val
				f["extra"] = st.Val
			}
			must(setup.Update(ctx, g))
			res.Probes["c18_foreign_updates"]++
	}
	for _, st := range sc.Steps {
		switch st.Kind {
		case "create":
			b := s.built[st.W%len(s.built)]
			for _, pi := range st.Pods {
				p := b.pods[pi%len(b.pods)].obj
				if created[p.Name] {
					continue
				}
				// a pod owned (directly or through a statefulset) by another pod is created by that pod
				if op := c18OwnerPod(b, p); op != nil {
					if deleted[op.Name] {
						continue
					}
					if !created[op.Name] {
						created[op.Name] = true
						must(setup.Create(ctx, op.DeepCopy()))
					}
				}
				created[p.Name] = true
				must(setup.Create(ctx, p.DeepCopy()))
			}
		case "delete":
			if p := podOf(st); p != nil && created[p.obj.Name] {
				api.RemovePod(NS, p.obj.Name)
				deleted[p.obj.Name] = true
				// garbage collection of dependants
				b := s.built[st.W%len(s.built)]
				for _, d := range b.pods {
					if op := c18OwnerPod(b, d.obj); op != nil && op.Name == p.obj.Name {
						api.RemovePod(NS, d.obj.Name)
					}
				}
			}
		case "schedule":
			if p := podOf(st); p != nil {
				if cur := api.Pod(NS, p.obj.Name); cur != nil && cur.Spec.NodeName == "" {
					cur = cur.DeepCopy()
					cur.Spec.NodeName = "n0"
					api.UpdatePod(cur)
				}
			}
		case "owner_label":
			applyOwnerLabel(st)
		case "foreign":
			applyForeign(st)
		case "foreign_mid":
			// the same edit, applied while a reconcile is in flight: just before the N-th gated API call of the next drain
			// a real change of the workload first (the owner's priority class), so that the next reconcile has something to
			// write to the pod group
			applyOwnerLabel(C18Step{Kind: "owner_label", W: st.W, Arg: "priorityClassName", Val: []string{"high", "build", ""}[st.N%3]})
			stc := st
			s.midAt = append(s.midAt, max(1, st.N))
			s.mid = append(s.mid, func() { res.Probes["c18_foreign_updates_during_reconcile"]++; applyForeign(stc) })
		case "fail":
			if check { // the differential runs are fault-free
				s.failAt, s.failHow = st.N, st.Arg
			}
		case "restart":
			s.snap = map[string]string{}
			s.queue = map[string]bool{}
			res.Probes["c18_restarts"]++
		case "drain":
			s.observe()
			s.resumed = 0
			k := st.K
			if forceK > 0 {
				k = forceK
			}
			t2 := salted(st.Tape)
			if !s.drain(max(1, k), 200, &t2) {
				fail("no_fixpoint", "work queue does not drain: %d keys left after 200 batches; last errors %v", len(s.queue), tailStr(s.log, 3))
				return nil
			}
		}
		// foreign-owned fields must hold whenever the controller is idle
		if st.Kind == "drain" {
			c18CheckForeign(api, foreign, fail)
		}
	}
	// final quiescence: no faults, a full resync (as after a restart), drain
	s.failAt = 0
	s.snap, s.queue = map[string]string{}, map[string]bool{}
	s.observe()
	k := 1
	if forceK > 0 {
		k = forceK
	}
	if !s.drain(k, 400, &tape) {
		fail("no_fixpoint", "work queue does not drain without faults: %d keys left; last errors %v", len(s.queue), tailStr(s.log, 3))
		return nil
	}
	c18CheckForeign(api, foreign, fail)

	fin := &c18Final{PodGroup: map[string]string{}, SubGroup: map[string]string{}, Groups: map[string]string{}, Derived: map[string]string{}}
	groups := map[string]*schedv2alpha2.PodGroup{}
	live := map[string]bool{} // pod groups with at least one live pod: these were reconciled fault-free at the end
	for _, p := range api.Pods() {
		live[p.Annotations[PGAnnotation]] = true
	}
	for _, g := range api.PodGroups() {
		groups[g.Name] = g
		if live[g.Name] {
			// a group whose pods are all gone keeps whatever its last (possibly fault-hit) reconcile wrote
			fin.Groups[g.Name] = c18Essence(g)
			gq := g.DeepCopy()
			gq.Spec.Queue = ""
			fin.Derived[g.Name] = c18Essence(gq)
		}
	}
	// sibling rule
	keyToGroup := map[string]string{}
	groupToKey := map[string]string{}
	for wi, b := range s.built {
		for _, bp := range b.pods {
			cur := api.Pod(NS, bp.obj.Name)
			if cur == nil {
				continue
			}
			gname := cur.Annotations[PGAnnotation]
			fin.PodGroup[cur.Name] = gname
			fin.SubGroup[cur.Name] = cur.Labels[SubGroupLabel]
			if gname == "" {
				fail("pod_without_group", "pod %s of %s workload %s has no pod group after a fault-free reconcile (errors: %v)", cur.Name, sc.Workloads[wi].Kind, sc.Workloads[wi].Name, tailStr(s.log, 3))
				continue
			}
			g := groups[gname]
			if g == nil {
				fail("group_missing", "pod %s is assigned to pod group %s which does not exist", cur.Name, gname)
				continue
			}
			if prev, ok := keyToGroup[bp.key]; ok && prev != gname {
				fail("siblings_split", "pods of %s workload %s that belong together (%s) are in different pod groups %s and %s", sc.Workloads[wi].Kind, sc.Workloads[wi].Name, bp.key, prev, gname)
			}
			keyToGroup[bp.key] = gname
			if prev, ok := groupToKey[gname]; ok && prev != bp.key {
				fail("strangers_merged", "pod group %s holds pods of two different workload units %s and %s", gname, prev, bp.key)
			}
			groupToKey[gname] = bp.key
			if check {
				res.Probes["c18_grouped_pods_"+sc.Workloads[wi].Kind]++
				if len(g.Spec.SubGroups) > 0 {
					res.Probes["c18_groups_with_subgroups_"+sc.Workloads[wi].Kind]++
				}
			}
			if want, ok := b.minMember[bp.key]; ok && foreign[gname] == nil {
				if g.Spec.MinMember != want {
					fail("min_member", "%s workload %s: pod group %s has minMember %d, the workload defines %d", sc.Workloads[wi].Kind, sc.Workloads[wi].Name, gname, g.Spec.MinMember, want)
				}
			}
			if sg := cur.Labels[SubGroupLabel]; sg != "" {
				found := false
				for _, x := range g.Spec.SubGroups {
					if x.Name == sg {
						found = true
					}
				}
				if !found {
					fail("subgroup_missing", "pod %s carries sub-group %q which pod group %s does not define", cur.Name, sg, gname)
				}
			}
		}
	}
	// idempotence: one more reconcile of every pod writes nothing
	before := s.writes
	s.gate.enabled = false
	for _, p := range api.Pods() {
		w0 := s.writes
		curRecMu.Lock()
		curRec[goid()] = ""
		curRecMu.Unlock()
		_, err := s.rec.Reconcile(ctx, ctrl.Request{NamespacedName: types.NamespacedName{Namespace: NS, Name: p.Name}})
		if err != nil {
			fail("reconcile_error_at_rest", "reconcile of %s fails without faults: %v", p.Name, err)
		}
		if s.writes != w0 {
			fail("not_idempotent", "re-reconciling pod %s (group %s) without any change performed %d write(s), last: %s", p.Name, p.Annotations[PGAnnotation], s.writes-w0, s.lastWrite)
		}
	}
	_ = before
	return fin
}

func c18CheckForeign(api *SimAPI, foreign map[string]map[string]string, fail func(rule, format string, args ...any)) {
	for _, g := range api.PodGroups() {
		f := foreign[g.Name]
		for _, k := range sortedKeys(f) {
			want := f[k]
			got := ""
			switch k {
			case "queue":
				got = g.Spec.Queue
			case "mark":
				got = "false"
				if g.Spec.MarkUnschedulable != nil && *g.Spec.MarkUnschedulable {
					got = "true"
				}
			case "backoff":
				got = "<nil>"
				if g.Spec.SchedulingBackoff != nil {
					got = fmt.Sprint(*g.Spec.SchedulingBackoff)
				}
			case "nodepool":
				got = "<absent>"
				if v, ok := g.Labels[NodePoolKey]; ok {
					got = v
				}
			case "queue_label":
				got = g.Labels[c18QueueLabel]
			case "extra":
				got = g.Labels["foreign/label"]
				if g.Annotations["foreign/annotation"] != want {
					got = "annotation:" + g.Annotations["foreign/annotation"]
				}
			}
			if got != want {
				fail("foreign_field_overwritten_"+k, "pod group %s: %s was set to %q by another actor and is %q after reconciliation", g.Name, k, want, got)
			}
		}
	}
}

func boolPtr(b bool) *bool { return &b }

// c18OwnerPod returns the pod that (transitively, within the workload) owns p, if any.
func c18OwnerPod(b *c18Built, p *corev1.Pod) *corev1.Pod {
	if len(p.OwnerReferences) == 0 {
		return nil
	}
	ref := p.OwnerReferences[0]
	for hops := 0; hops < 4; hops++ {
		if ref.Kind == "Pod" {
			for _, c := range b.pods {
				if c.obj.Name == ref.Name {
					return c.obj
				}
			}
			return nil
		}
		var next *metav1.OwnerReference
		for _, o := range b.owners {
			if o.GetKind() == ref.Kind && o.GetName() == ref.Name && len(o.GetOwnerReferences()) > 0 {
				r := o.GetOwnerReferences()[0]
				next = &r
			}
		}
		if next == nil {
			return nil
		}
		ref = *next
	}
	return nil
}

func tailStr(s []string, n int) []string {
	if len(s) > n {
		return s[len(s)-n:]
	}
	return s
}
