package kaisim

// C07: reclaim protects deserved quota and moves resources toward fair share. Judged on the
// committed decisions of every reclaim scenario (evictions with evict-action "reclaim" for one
// preemptor and the placements committed with them), against queue allocations recomputed from
// the pods of the API store and replayed over the cycle's decisions, the queues' deserved quota from
// the API objects and the fair shares the proportion plugin computed for the session (hook H6; the
// fair-share laws themselves are C09).

import (
	"fmt"
	"math"

	"github.com/NVIDIA/KAI-scheduler/pkg/scheduler/framework"
	"github.com/NVIDIA/KAI-scheduler/pkg/scheduler/plugins/proportion"
	rs "github.com/NVIDIA/KAI-scheduler/pkg/scheduler/plugins/proportion/resource_share"
)

type vec3 [3]float64 // gpu, cpu (milli), memory (bytes)

var vecNames = [3]string{"gpu", "cpu", "memory"}

type ReclaimOracle struct {
	BaseOracle
	fair map[string]vec3 // queue -> fair share of the current session (-1 unlimited)
}

func (o *ReclaimOracle) Prop() string { return "C07" }

func (o *ReclaimOracle) SessionOpen(r *Run, ssn *framework.Session) {
	o.fair = nil
	attrs, _ := proportion.QueueAttributesForSim(ssn.PluginForSim("proportion"))
	if attrs == nil {
		return
	}
	o.fair = map[string]vec3{}
	for id, qa := range attrs {
		o.fair[string(id)] = vec3{qa.ResourceShare(rs.GpuResource).FairShare, qa.ResourceShare(rs.CpuResource).FairShare, qa.ResourceShare(rs.MemoryResource).FairShare}
	}
}

func aboveAny(v, bound vec3, eps vec3) bool {
	for i := range v {
		if bound[i] >= 0 && v[i] > bound[i]+eps[i] {
			return true
		}
	}
	return false
}

func (o *ReclaimOracle) AfterCycle(r *Run, cycle int, all []Decision) {
	pre := r.Pre
	if pre == nil || o.fair == nil {
		return
	}
	ds := okDecisions(all)
	deserved := func(q string) vec3 {
		rq := pre.Queues[q]
		return vec3{rq.GPU.Quota, rq.CPU.Quota, rq.Mem.Quota}
	}
	eps := vec3{0.011, 1e-6, 1e-6} // gpu-memory requests are rounded to 1/100 device
	type use struct{ all, np vec3 }
	alloc := map[string]*use{}
	for q := range pre.Queues {
		alloc[q] = &use{}
	}
	active := map[string]string{} // pod -> node while it counts as allocated
	chainOf := func(q string) []string {
		var out []string
		seen := map[string]bool{}
		for cur := pre.Queues[q]; cur != nil && !seen[cur.Name]; cur = pre.Queues[cur.Parent] {
			seen[cur.Name] = true
			out = append(out, cur.Name)
		}
		return out
	}
	demand := func(p *RefPod, node string) vec3 {
		g, c, m := podQueueDemand(pre, p, node)
		return vec3{g, c, m}
	}
	charge := func(p *RefPod, node string, sign float64) {
		g := pre.Groups[p.Group]
		if g == nil {
			return
		}
		d := demand(p, node)
		for _, q := range chainOf(g.Queue) {
			for i := range d {
				alloc[q].all[i] += sign * d[i]
				if !g.Preemptible {
					alloc[q].np[i] += sign * d[i]
				}
			}
		}
	}
	for _, name := range sortedKeys(pre.Pods) {
		if p := pre.Pods[name]; p.Active {
			charge(p, p.Node, 1)
			active[name] = p.Node
		}
	}
	apply := func(d Decision) {
		p := pre.Pods[d.Pod]
		if p == nil {
			return
		}
		switch d.Kind {
		case "evict":
			if n, ok := active[d.Pod]; ok {
				charge(p, n, -1)
				delete(active, d.Pod)
			}
		case "bind", "pipeline":
			if n, ok := active[d.Pod]; ok {
				charge(p, n, -1)
			}
			charge(p, d.Node, 1)
			active[d.Pod] = d.Node
		}
	}
	snapshot := func() map[string]use {
		out := map[string]use{}
		for q, u := range alloc {
			out[q] = *u
		}
		return out
	}
	// signatures of the known accounting defects (C14): once one of them has happened in the cycle the plugin's
	// own queue allocations are off, and so is everything it decides from them
	sfx := ""
	{
		evicted, nominatedOnly := map[string]int{}, map[string]bool{}
		for _, d := range ds {
			switch d.Kind {
			case "pipeline":
				if p := pre.Pods[d.Pod]; p != nil && !p.Active {
					nominatedOnly[d.Pod] = true
				}
			case "bind":
				delete(nominatedOnly, d.Pod)
			case "evict":
				evicted[d.Pod]++
				if evicted[d.Pod] > 1 && sfx == "" {
					sfx = "_after_double_evict"
				}
				if nominatedOnly[d.Pod] && sfx == "" {
					sfx = "_after_pipelined_victim"
				}
			}
		}
	}
	fail := func(rule, format string, args ...any) { r.Fail("C07", rule+sfx, format, args...) }
	for i := 0; i < len(ds); {
		d := ds[i]
		if !(d.Kind == "evict" && d.EvictAction == "reclaim" && d.Preemptor != "") {
			apply(d)
			i++
			continue
		}
		// one scenario: this preemptor's evictions and every reclaim decision committed with them
		// (placements of the preemptor's pods and re-placements of this scenario's victims belong to it; a placement of
		// any other workload is a later scenario that needed no victims)
		j := i
		victimGroups := map[string]bool{}
		for j < len(ds) && ds[j].Action == d.Action {
			x := ds[j]
			if x.Kind == "evict" {
				if x.Preemptor != d.Preemptor {
					break
				}
				victimGroups[x.Group] = true
			} else if x.Group != d.Preemptor && !victimGroups[x.Group] {
				break
			}
			j++
		}
		scenario := ds[i:j]
		reclaimer := pre.Groups[d.Preemptor]
		before := snapshot()
		victimsByQueue := map[string][]vec3{} // victim's leaf queue -> demand of every victim job (net of re-placement)
		victimJobIdx := map[string]int{}
		replaced := map[string]bool{}
		for _, s := range scenario {
			if (s.Kind == "bind" || s.Kind == "pipeline") && s.Group != d.Preemptor {
				replaced[s.Pod] = true
			}
		}
		var received vec3
		movedUnder := map[string]vec3{} // queue -> demand of this scenario's victims that were nominated again elsewhere
		for _, s := range scenario {
			if p := pre.Pods[s.Pod]; p != nil && s.Kind == "evict" && replaced[s.Pod] && pre.Groups[p.Group] != nil {
				if n, ok := active[s.Pod]; ok {
					dm := demand(p, n)
					for _, q := range chainOf(pre.Groups[p.Group].Queue) {
						v := movedUnder[q]
						for k := range dm {
							v[k] += dm[k]
						}
						movedUnder[q] = v
					}
				}
			}
		}
		for _, s := range scenario {
			p := pre.Pods[s.Pod]
			if p == nil {
				continue
			}
			if s.Kind == "evict" && !replaced[s.Pod] {
				if n, ok := active[s.Pod]; ok && pre.Groups[p.Group] != nil {
					// a victim is a job (the part of it that is evicted): the remaining share shrinks job by job
					q := pre.Groups[p.Group].Queue
					idx, seen := victimJobIdx[p.Group]
					if !seen {
						idx = len(victimsByQueue[q])
						victimJobIdx[p.Group] = idx
						victimsByQueue[q] = append(victimsByQueue[q], vec3{})
					}
					dm := demand(p, n)
					for k := range dm {
						victimsByQueue[q][idx][k] += dm[k]
					}
				}
			}
			if (s.Kind == "bind" || s.Kind == "pipeline") && s.Group == d.Preemptor {
				dm := demand(p, s.Node)
				for k := range dm {
					received[k] += dm[k]
				}
			}
			apply(s)
		}
		after := snapshot()
		i = j
		if reclaimer == nil || pre.Queues[reclaimer.Queue] == nil || len(victimsByQueue) == 0 {
			continue
		}
		r.Probe("c07_reclaim_scenarios_judged")
		rChain := chainOf(reclaimer.Queue) // leaf ... top
		where := fmt.Sprintf("cycle %d: reclaim for %s (queue %s)", cycle, d.Preemptor, reclaimer.Queue)
		// (b) the reclaiming queue stays within its fair share in the resources it received
		for k := range received {
			f := o.fair[reclaimer.Queue][k]
			if received[k] > 0 && f >= 0 && after[reclaimer.Queue].all[k] > f+eps[k] {
				fail("reclaimer_above_fair_share", "%s: queue %s ends with %s allocation %.3f above its fair share %.3f", where, reclaimer.Queue, vecNames[k], after[reclaimer.Queue].all[k], f)
			}
		}
		// (c) a non-preemptible reclaimer keeps its queue's non-preemptible allocation within deserved quota
		if !reclaimer.Preemptible {
			dq := deserved(reclaimer.Queue)
			for k := range received {
				if received[k] > 0 && dq[k] >= 0 && after[reclaimer.Queue].np[k] > dq[k]+eps[k] && after[reclaimer.Queue].np[k] > before[reclaimer.Queue].np[k]+eps[k] {
					fail("nonpreemptible_reclaimer_above_quota", "%s: non-preemptible %s allocation of queue %s ends at %.3f above deserved quota %.3f", where, vecNames[k], reclaimer.Queue, after[reclaimer.Queue].np[k], dq[k])
				}
			}
		}
		// the validator walks the victims leaf queue by leaf queue (in map order) against the remaining share of the queue
		// at the level of divergence: any victim job below that queue may have been the last one taken
		divergence := func(vq string) (string, string) {
			vChain := chainOf(vq)
			ar, av := "", ""
			for x, y := len(rChain)-1, len(vChain)-1; x >= 0 && y >= 0; x, y = x-1, y-1 {
				ar, av = rChain[x], vChain[y]
				if ar != av {
					break
				}
			}
			return ar, av
		}
		victimsUnder := map[string][]vec3{}
		for _, vq := range sortedKeys(victimsByQueue) {
			if pre.Queues[vq] != nil {
				_, av := divergence(vq)
				victimsUnder[av] = append(victimsUnder[av], victimsByQueue[vq]...)
			}
		}
		for _, vq := range sortedKeys(victimsByQueue) {
			if pre.Queues[vq] == nil {
				continue
			}
			vChain := chainOf(vq)
			// queues at the level where the two paths diverge (top-down comparison)
			ar, av := "", ""
			for x, y := len(rChain)-1, len(vChain)-1; x >= 0 && y >= 0; x, y = x-1, y-1 {
				ar, av = rChain[x], vChain[y]
				if ar != av {
					break
				}
			}
			if ar == av {
				// same leaf queue: reclaim never takes from the reclaimer's own queue
				fail("victim_in_reclaimers_queue", "%s: victim taken from the reclaimer's own queue %s", where, vq)
				continue
			}
			r.Probe("c07_victim_queues_judged")
			// (a) resources are taken only from a queue above its deserved quota or above its fair share: when the
			// last of its victims was taken it still had to be above one of them
			var sum vec3
			for _, v := range victimsByQueue[vq] {
				for k := range v {
					sum[k] += v[k]
				}
			}
			ok := false
			for _, v := range victimsUnder[av] {
				var rem vec3
				for k := range rem {
					rem[k] = after[av].all[k] + v[k]
				}
				if aboveAny(rem, deserved(av), eps) || aboveAny(rem, o.fair[av], eps) {
					ok = true
				}
			}
			if !ok {
				fail("took_from_queue_within_quota", "%s: queue %s (level of divergence from %s) lost %v while within its deserved quota %v and fair share %v: allocation before %v, after %v",
					where, av, ar, sum, deserved(av), o.fair[av], before[av].all, after[av].all)
			}
			// (d) no ancestor of the reclaimer ends above its fair share and at least as saturated as the sibling it took from
			ratio := func(a, f float64) float64 {
				if f == 0 {
					if a > 0 {
						return math.Inf(1)
					}
					return 0
				}
				if f < 0 {
					return 0
				}
				return a / f
			}
			for k := range received {
				if received[k] <= 0 || sum[k] <= 0 {
					continue
				}
				fa, fs := o.fair[ar][k], o.fair[av][k]
				if fa < 0 && fs < 0 {
					continue
				}
				ra, rsib := ratio(after[ar].all[k], fa), ratio(after[av].all[k], fs)
				if ra > 1+1e-9 && fs > 0 && ra >= rsib+1e-9 {
					rule := "reclaimer_side_more_saturated"
					// The scenario validator (reclaimable.Reclaimable) is called with every task the simulation evicted,
					// including potential victims of the reclaimer's own side that the same scenario then puts back (in
					// place, or nominated elsewhere): it counts them as freed although they stay allocated. Signature:
					// the outcome would pass if preemptible pods of other workloads on the reclaimer's side were gone.
					slack := movedUnder[ar][k]
					for _, name := range sortedKeys(active) {
						p := pre.Pods[name]
						g := pre.Groups[p.Group]
						if g == nil || !g.Preemptible || p.Group == d.Preemptor {
							continue
						}
						for _, q := range chainOf(g.Queue) {
							if q == ar {
								slack += demand(p, active[name])[k]
							}
						}
					}
					if slack > 0 {
						if ra2 := ratio(after[ar].all[k]-slack, fa); !(ra2 > 1+1e-9 && ra2 >= rsib+1e-9) {
							rule += "_counting_replaced_victims_as_freed"
						}
					}
					fail(rule, "%s: after reclaim queue %s holds %.3f %s of fair share %.3f (saturation %.3f) while %s, which it took from, holds %.3f of %.3f (saturation %.3f)",
						where, ar, after[ar].all[k], vecNames[k], fa, ra, av, after[av].all[k], fs, rsib)
				}
			}
		}
	}
}
