package kaisim

// C14: at every step of a cycle the scheduler's bookkeeping equals the value recomputed from
// scratch from the pods and their statuses.

import (
	"fmt"
	"math"
	"os"
	"sort"
	"strings"

	corev1 "k8s.io/api/core/v1"

	"github.com/NVIDIA/KAI-scheduler/pkg/scheduler/api/node_info"
	"github.com/NVIDIA/KAI-scheduler/pkg/scheduler/api/pod_info"
	"github.com/NVIDIA/KAI-scheduler/pkg/scheduler/api/pod_status"
	"github.com/NVIDIA/KAI-scheduler/pkg/scheduler/api/podgroup_info"
	"github.com/NVIDIA/KAI-scheduler/pkg/scheduler/api/resource_info"
	"github.com/NVIDIA/KAI-scheduler/pkg/scheduler/framework"
	"github.com/NVIDIA/KAI-scheduler/pkg/scheduler/plugins/proportion"
	rs "github.com/NVIDIA/KAI-scheduler/pkg/scheduler/plugins/proportion/resource_share"
)

type AccountingOracle struct {
	BaseOracle
	events int
	// per session: last status seen per task, and whether a task that was only nominated
	// (Pipelined) has been evicted in a simulation of this session (known-finding signature)
	lastStatus      map[podKey]pod_status.PodStatus
	pipelinedVictim bool
	// a shared-GPU task evicted in a simulation and nominated again on the same node but on
	// another GPU group (second known-finding signature)
	evictedGroups map[podKey]string
	gpuMove       bool
	// a task evicted again while it is already Releasing (third known-finding signature)
	doubleEvict bool
}

func (o *AccountingOracle) Prop() string { return "C14" }

func (o *AccountingOracle) SessionOpen(r *Run, ssn *framework.Session) {
	o.lastStatus = map[podKey]pod_status.PodStatus{}
	o.pipelinedVictim = false
	o.evictedGroups = map[podKey]string{}
	o.gpuMove = false
	o.doubleEvict = false
	o.check(r, ssn, "session-open")
}
func (o *AccountingOracle) AfterAction(r *Run, name string, ssn *framework.Session) {
	o.check(r, ssn, "after-"+name)
}
func (o *AccountingOracle) Event(r *Run, ssn *framework.Session, ev *framework.Event, alloc bool) {
	o.events++
	r.Probe("c14_events_checked")
	kind := "dealloc"
	if alloc {
		kind = "alloc"
	}
	if os.Getenv("KAISIM_DEBUG_EVENTS") != "" {
		t := ev.Task
		line := fmt.Sprintf("EVENT #%d cycle=%d action=%s %s task=%s status=%v node=%s groups=%v virt=%v", o.events, r.cycle, r.Sched.Obs.action, kind, t.Name, t.Status, t.NodeName, t.GPUGroups, t.IsVirtualStatus)
		if attrs, _ := proportion.QueueAttributesForSim(ssn.PluginForSim("proportion")); attrs != nil {
			if j := ssn.ClusterInfo.PodGroupInfos[t.Job]; j != nil {
				if qa := attrs[j.Queue]; qa != nil {
					line += fmt.Sprintf(" | queue %s alloc cpu=%v mem=%v gpu=%v", j.Queue, qa.ResourceShare(rs.CpuResource).Allocated, qa.ResourceShare(rs.MemoryResource).Allocated, qa.ResourceShare(rs.GpuResource).Allocated)
				}
			}
		}
		if ni := ssn.ClusterInfo.Nodes[t.NodeName]; ni != nil {
			line += fmt.Sprintf(" | node idle=%v used=%v rel=%v pods=", ni.Idle, ni.Used, ni.Releasing)
			for _, p := range sortedPodInfos(ni.PodInfos) {
				line += fmt.Sprintf("%s:%v ", p.Name, p.Status)
			}
		}
		fmt.Println(line)
	}
	if !alloc && ev.Task.Status == pod_status.Releasing && o.lastStatus[ev.Task.UID] == pod_status.Pipelined {
		o.pipelinedVictim = true
		r.Probe("evict_of_pipelined_task")
	}
	if !alloc && ev.Task.Status == pod_status.Releasing && o.lastStatus[ev.Task.UID] == pod_status.Releasing {
		o.doubleEvict = true
		r.Probe("evict_of_releasing_task")
	}
	if !alloc && ev.Task.Status == pod_status.Releasing && len(ev.Task.GPUGroups) > 0 {
		o.evictedGroups[ev.Task.UID] = ev.Task.NodeName + "|" + fmt.Sprint(ev.Task.GPUGroups)
	}
	if alloc && ev.Task.Status == pod_status.Pipelined && len(ev.Task.GPUGroups) > 0 {
		if prev, ok := o.evictedGroups[ev.Task.UID]; ok && strings.HasPrefix(prev, ev.Task.NodeName+"|") && prev != ev.Task.NodeName+"|"+fmt.Sprint(ev.Task.GPUGroups) {
			o.gpuMove = true
			r.Probe("fraction_renominated_on_other_gpu_same_node")
		}
	}
	o.lastStatus[ev.Task.UID] = ev.Task.Status
	o.check(r, ssn, fmt.Sprintf("event#%d-%s(%s)", o.events, kind, ev.Task.Name))
}

type nopAffinity struct{ name string }

func (nopAffinity) AddPod(*corev1.Pod)               {}
func (nopAffinity) RemovePod(*corev1.Pod) error      { return nil }
func (nopAffinity) HasPodsWithPodAffinity() bool     { return false }
func (nopAffinity) HasPodsWithPodAntiAffinity() bool { return false }
func (n nopAffinity) Name() string                   { return n.name }

func feq(a, b float64) bool {
	return math.Abs(a-b) <= 1e-9*math.Max(1, math.Max(math.Abs(a), math.Abs(b)))
}

func resDiff(a, b *resource_info.Resource) string {
	if !feq(a.Cpu(), b.Cpu()) {
		return fmt.Sprintf("cpu %v != %v", a.Cpu(), b.Cpu())
	}
	if !feq(a.Memory(), b.Memory()) {
		return fmt.Sprintf("memory %v != %v", a.Memory(), b.Memory())
	}
	if !feq(a.GPUs(), b.GPUs()) {
		return fmt.Sprintf("gpus %v != %v", a.GPUs(), b.GPUs())
	}
	keys := map[corev1.ResourceName]bool{}
	for k := range a.ScalarResources() {
		keys[k] = true
	}
	for k := range b.ScalarResources() {
		keys[k] = true
	}
	var ks []string
	for k := range keys {
		ks = append(ks, string(k))
	}
	sort.Strings(ks)
	for _, k := range ks {
		if a.ScalarResources()[corev1.ResourceName(k)] != b.ScalarResources()[corev1.ResourceName(k)] {
			return fmt.Sprintf("%s %v != %v", k, a.ScalarResources()[corev1.ResourceName(k)], b.ScalarResources()[corev1.ResourceName(k)])
		}
	}
	return ""
}

func vecDiff(vec resource_info.ResourceVector, res *resource_info.Resource, vm *resource_info.ResourceVectorMap) string {
	want := res.ToVector(vm)
	n := max(len(vec), len(want))
	for i := 0; i < n; i++ {
		if !feq(vec.Get(i), want.Get(i)) {
			return fmt.Sprintf("%s: vector %v != structured %v", vm.ResourceAt(i), vec.Get(i), want.Get(i))
		}
	}
	return ""
}

func normMapI(m map[string]int64) map[string]int64 {
	out := map[string]int64{}
	for k, v := range m {
		if v != 0 {
			out[k] = v
		}
	}
	return out
}

func mapIDiff(a, b map[string]int64) string {
	a, b = normMapI(a), normMapI(b)
	keys := map[string]bool{}
	for k := range a {
		keys[k] = true
	}
	for k := range b {
		keys[k] = true
	}
	for _, k := range sortedKeys(keys) {
		if a[k] != b[k] {
			return fmt.Sprintf("[%s] %d != %d", k, a[k], b[k])
		}
	}
	return ""
}

func sortedPodInfos(m map[podKey]*pod_info.PodInfo) []*pod_info.PodInfo {
	out := make([]*pod_info.PodInfo, 0, len(m))
	for _, p := range m {
		out = append(out, p)
	}
	sort.Slice(out, func(i, j int) bool {
		if out[i].Namespace != out[j].Namespace {
			return out[i].Namespace < out[j].Namespace
		}
		return out[i].Name < out[j].Name
	})
	return out
}

func (o *AccountingOracle) check(r *Run, ssn *framework.Session, at string) {
	if ssn.ClusterInfo == nil || ssn.ClusterInfo.Nodes == nil {
		return
	}
	fail := func(rule, format string, args ...any) {
		if o.pipelinedVictim {
			rule += "_after_pipelined_victim"
		} else if o.gpuMove {
			rule += "_after_fraction_gpu_move"
		} else if o.doubleEvict {
			rule += "_after_double_evict"
		}
		r.Fail("C14", rule, "at %s: %s", at, fmt.Sprintf(format, args...))
	}
	// ---------- a pod whose bind failed in this cycle is not allocated ----------
	if strings.HasPrefix(at, "after-") {
		for _, d := range r.Sched.Obs.CycleDecisions(r.cycle) {
			if d.Kind != "bind" || d.Err == "" || strings.Contains(d.Err, "scheduler process crashed") {
				continue
			}
			job := ssn.ClusterInfo.PodGroupInfos[podGroupID(d.Group)]
			if job == nil {
				continue
			}
			for _, t := range job.GetAllPodsMap() {
				if t.Name != d.Pod {
					continue
				}
				r.Probe("c14_failed_binds_checked")
				if t.Status == pod_status.Allocated || t.Status == pod_status.Binding {
					laterOK := false // a later, successful decision for the same pod explains the status
					for _, d2 := range r.Sched.Obs.CycleDecisions(r.cycle) {
						if d2.Pod == d.Pod && d2.Seq > d.Seq && d2.Err == "" && (d2.Kind == "bind") {
							laterOK = true
						}
					}
					if !laterOK {
						fail("task_allocated_after_failed_bind", "pod %s: its bind failed in this cycle (%s) but the scheduler still holds it as %v on node %s", d.Pod, d.Err, t.Status, t.NodeName)
					}
				}
			}
		}
	}
	// ---------- claimed devices (DRA) ----------
	if r.S.World.HasDRA() {
		if os.Getenv("KAISIM_DEBUG_DRA") != "" {
			fmt.Printf("DRA-CHECK cycle=%d at=%s\n%s", r.cycle, at, dumpDRA(ssn))
		}
		lost, ghost, double := draTrackerMismatch(ssn)
		r.Probe("c14_dra_device_sets_checked")
		if len(double) > 0 {
			r.draDouble = true
			fail("dra_device_double_allocated", "in the scheduler's own claim cache one device is allocated to two claims: %v", double)
		}
		sfx := ""
		if r.draDouble {
			sfx = "_after_double_allocation"
		}
		if len(lost)+len(ghost) > 0 {
			r.draInconsistent = true
		}
		if len(lost) > 0 {
			fail("dra_device_lost"+sfx, "the scheduler's set of allocated devices misses %v although its own claim cache holds claims allocated on them: the devices look free", lost)
		}
		if len(ghost) > 0 {
			fail("dra_device_ghost"+sfx, "the scheduler's set of allocated devices contains %v which no claim in its cache (nor an in-flight allocation) holds", ghost)
		}
	}
	// claims no decision of this cycle touched: what the scheduler believes about them at an action boundary (every
	// what-if statement is closed) must be what the API says
	if r.S.World.HasDRA() && (strings.HasPrefix(at, "after-") || at == "session-open") {
		// observation only (not understood well enough on the unchanged tree to be an oracle): counted, never failing
		if n := len(draViewVsAPI(r, ssn)); n > 0 {
			r.Probe("c14_dra_untouched_claim_view_differs_from_api_observed")
		}
		r.Probe("c14_dra_view_vs_api_checked")
	}
	// ---------- nodes ----------
	nodeNames := make([]string, 0, len(ssn.ClusterInfo.Nodes))
	for n := range ssn.ClusterInfo.Nodes {
		nodeNames = append(nodeNames, n)
	}
	sort.Strings(nodeNames)
	for _, nn := range nodeNames {
		ni := ssn.ClusterInfo.Nodes[nn]
		// vector and structured representations agree
		if d := vecDiff(ni.IdleVector, ni.Idle, ni.VectorMap); d != "" {
			fail("node_vector_idle", "node %s Idle %s", nn, d)
		}
		if d := vecDiff(ni.UsedVector, ni.Used, ni.VectorMap); d != "" {
			fail("node_vector_used", "node %s Used %s", nn, d)
		}
		if d := vecDiff(ni.ReleasingVector, ni.Releasing, ni.VectorMap); d != "" {
			fail("node_vector_releasing", "node %s Releasing %s", nn, d)
		}
		pods := sortedPodInfos(ni.PodInfos)
		// closed forms for everything that is a plain sum
		used := resource_info.EmptyResource()
		nonPipelined := resource_info.EmptyResource()
		releasing := resource_info.EmptyResource()
		pipelined := resource_info.EmptyResource()
		usedMem, allocMem, relMem := map[string]int64{}, map[string]int64{}, map[string]int64{}
		anyShared := false
		for _, p := range pods {
			req := resource_info.EmptyResource()
			req.BaseResource = *p.AcceptedResource.BaseResource.Clone()
			for k, v := range p.AcceptedResource.MigResources() {
				req.ScalarResources()[k] = v
			}
			if !p.IsSharedGPUAllocation() && !pod_info.IsResourceReservationTask(p.Pod) {
				req.SetGPUs(p.AcceptedResource.GPUs() + float64(p.AcceptedResource.GetDraGpusCount()))
			}
			used.Add(req)
			switch p.Status {
			case pod_status.Pipelined:
				pipelined.Add(req)
			case pod_status.Releasing:
				releasing.Add(req)
				nonPipelined.Add(req)
			default:
				nonPipelined.Add(req)
			}
			if p.IsSharedGPUAllocation() {
				anyShared = true
				mem := ni.GetResourceGpuMemory(p.ResReq)
				for _, g := range p.GPUGroups {
					usedMem[g] += mem
					switch p.Status {
					case pod_status.Pipelined:
						relMem[g] -= mem
					case pod_status.Releasing:
						relMem[g] += mem
						allocMem[g] += mem
					default:
						allocMem[g] += mem
					}
				}
			}
		}
		wantIdle := ni.Allocatable.Clone()
		wantIdle.Sub(nonPipelined)
		wantRel := releasing.Clone()
		wantRel.Sub(pipelined)
		if anyShared || len(ni.UsedSharedGPUsMemory) > 0 {
			// whole-GPU counters under sharing are compared by rebuild (below), not by closed form
			used.SetGPUs(ni.Used.GPUs())
			wantIdle.SetGPUs(ni.Idle.GPUs())
			wantRel.SetGPUs(ni.Releasing.GPUs())
		}
		if anyShared || len(ni.UsedSharedGPUsMemory) > 0 {
			// what holds whatever heuristic keeps the whole-GPU counters of a node with shared devices: no counter is
			// negative, and the devices counted idle plus the devices that certainly are occupied (whole-GPU pods that
			// are not merely nominated, GPU groups with at least one sharer that is not merely nominated) fit the node
			occupied := nonPipelined.GPUs()
			for _, g := range sortedKeys(allocMem) {
				if allocMem[g] > 0 {
					occupied++
				}
			}
			total := ni.Allocatable.GPUs()
			if ni.Idle.GPUs() < -1e-9 || ni.Releasing.GPUs() < -1e-9 || ni.Used.GPUs() < -1e-9 {
				fail("node_gpu_counter_negative", "node %s (shared GPUs): Idle %v Releasing %v Used %v GPUs", nn, ni.Idle.GPUs(), ni.Releasing.GPUs(), ni.Used.GPUs())
			} else if ni.Idle.GPUs()+occupied > total+1e-9 {
				fail("node_idle_gpus_exceed_free_devices", "node %s (shared GPUs): Idle counts %v GPUs but %v of its %v devices are occupied by pods that are not merely nominated", nn, ni.Idle.GPUs(), occupied, total)
			} else if ni.Idle.GPUs()+occupied < total-1e-9 {
				fail("node_idle_gpus_lost", "node %s (shared GPUs): Idle counts %v GPUs, %v of its %v devices are occupied by pods that are not merely nominated", nn, ni.Idle.GPUs(), occupied, total)
			}
		}
		if d := resDiff(ni.Used, used); d != "" {
			fail("node_used", "node %s Used %s (scheduler vs recomputed)", nn, d)
		}
		if d := resDiff(ni.Idle, wantIdle); d != "" {
			desc := ""
			for _, p := range pods {
				desc += fmt.Sprintf(" %s:%v:cpu=%v:gpus=%v:groups=%v:recv=%v", p.Name, p.Status, p.AcceptedResource.Cpu(), p.AcceptedResource.GPUs(), p.GPUGroups, p.ResourceReceivedType)
			}
			fail("node_idle", "node %s Idle %s (scheduler vs recomputed); node pods:%s", nn, d, desc)
		}
		if d := resDiff(ni.Releasing, wantRel); d != "" {
			fail("node_releasing", "node %s Releasing %s (scheduler vs recomputed)", nn, d)
		}
		if d := mapIDiff(ni.UsedSharedGPUsMemory, usedMem); d != "" {
			fail("gpu_used_memory", "node %s UsedSharedGPUsMemory%s", nn, d)
		}
		if d := mapIDiff(ni.AllocatedSharedGPUsMemory, allocMem); d != "" {
			fail("gpu_allocated_memory", "node %s AllocatedSharedGPUsMemory%s", nn, d)
		}
		if d := mapIDiff(ni.ReleasingSharedGPUsMemory, relMem); d != "" {
			fail("gpu_releasing_memory", "node %s ReleasingSharedGPUsMemory%s", nn, d)
		}
		// rebuild-and-compare for whole-GPU counters under sharing
		if anyShared && os.Getenv("KAISIM_C14_REBUILD") != "" {
			r.Probe("c14_rebuild_compare")
			fresh := node_info.NewNodeInfo(ni.Node, nopAffinity{nn}, ni.VectorMap)
			add := func(pred func(*pod_info.PodInfo) bool) {
				for _, p := range pods {
					if pred(p) {
						c := p.Clone()
						c.Pod = p.Pod
						_ = fresh.AddTask(c)
					}
				}
			}
			add(func(p *pod_info.PodInfo) bool { return pod_info.IsResourceReservationTask(p.Pod) })
			add(func(p *pod_info.PodInfo) bool {
				return !pod_info.IsResourceReservationTask(p.Pod) && p.Status != pod_status.Pipelined
			})
			add(func(p *pod_info.PodInfo) bool {
				return !pod_info.IsResourceReservationTask(p.Pod) && p.Status == pod_status.Pipelined
			})
			if !feq(fresh.Idle.GPUs(), ni.Idle.GPUs()) {
				fail("node_idle_gpus_rebuild", "node %s Idle GPUs %v, rebuilt from its pods %v", nn, ni.Idle.GPUs(), fresh.Idle.GPUs())
			}
			if !feq(fresh.Releasing.GPUs(), ni.Releasing.GPUs()) {
				fail("node_releasing_gpus_rebuild", "node %s Releasing GPUs %v, rebuilt from its pods %v", nn, ni.Releasing.GPUs(), fresh.Releasing.GPUs())
			}
			if !feq(fresh.Used.GPUs(), ni.Used.GPUs()) {
				fail("node_used_gpus_rebuild", "node %s Used GPUs %v, rebuilt from its pods %v", nn, ni.Used.GPUs(), fresh.Used.GPUs())
			}
		}
	}
	// ---------- jobs and pods present on nodes ----------
	jobIDs := make([]string, 0, len(ssn.ClusterInfo.PodGroupInfos))
	for id := range ssn.ClusterInfo.PodGroupInfos {
		jobIDs = append(jobIDs, string(id))
	}
	sort.Strings(jobIDs)
	perQueue := map[string]*qsum{}
	for _, id := range jobIDs {
		job := ssn.ClusterInfo.PodGroupInfos[podGroupID(id)]
		o.checkJob(r, ssn, job, fail)
		qs := perQueue[string(job.Queue)]
		if qs == nil {
			qs = &qsum{}
			perQueue[string(job.Queue)] = qs
		}
		for _, t := range job.GetAllPodsMap() {
			if pod_status.IsActiveAllocatedStatus(t.Status) {
				qs.cpu += t.AcceptedResource.Cpu()
				qs.mem += t.AcceptedResource.Memory()
				qs.gpu += t.AcceptedResource.GetGpusQuota()
				if !job.IsPreemptibleJob() {
					qs.npCpu += t.AcceptedResource.Cpu()
					qs.npMem += t.AcceptedResource.Memory()
					qs.npGpu += t.AcceptedResource.GetGpusQuota()
				}
			}
			if pod_status.IsActiveUsedStatus(t.Status) && t.NodeName != "" {
				ni := ssn.ClusterInfo.Nodes[t.NodeName]
				if ni == nil {
					continue
				}
				// what a gpu-memory pod is charged depends on the node it is on: requested memory over the memory of
				// that node's devices (the scheduler rounds up to a hundredth of a device), per device requested
				if mem := t.ResReq.GpuMemory(); mem > 0 && ni.MemoryOfEveryGpuOnNode > 0 && t.AcceptedResource != nil {
					devs := float64(max(1, t.ResReq.GetNumOfGpuDevices()))
					exact := devs * float64(mem) / float64(ni.MemoryOfEveryGpuOnNode)
					if got := t.AcceptedResource.GetGpusQuota(); got < exact-1e-9 || got > exact+0.01*devs+1e-9 {
						fail("task_accepted_gpu_share", "task %s (%v, gpu-memory %d x %v devices) on node %s with %d per device is charged %.4f GPUs, its request on this node is %.4f",
							t.Name, t.Status, mem, devs, t.NodeName, ni.MemoryOfEveryGpuOnNode, got, exact)
					}
				}
				c, found := ni.PodInfos[pod_info.PodKey(t.Pod)]
				if !found {
					fail("pod_missing_on_node", "task %s status %v node %s is not among the node's pods", t.Name, t.Status, t.NodeName)
				} else if statusClass(c.Status) != statusClass(t.Status) {
					fail("pod_status_on_node", "task %s status %v but node %s holds it as %v", t.Name, t.Status, t.NodeName, c.Status)
				}
			}
		}
	}
	// ---------- queues ----------
	attrs, _ := proportion.QueueAttributesForSim(ssn.PluginForSim("proportion"))
	if attrs == nil {
		return
	}
	qids := make([]string, 0, len(ssn.ClusterInfo.Queues))
	for q := range ssn.ClusterInfo.Queues {
		qids = append(qids, string(q))
	}
	sort.Strings(qids)
	total := map[string]*qsum{}
	for _, q := range qids {
		total[q] = &qsum{}
	}
	for q, s := range perQueue {
		seen := map[string]bool{}
		for cur := q; cur != ""; {
			qi, ok := ssn.ClusterInfo.Queues[queueID(cur)]
			if !ok || seen[cur] {
				break
			}
			seen[cur] = true
			total[cur].add(s)
			cur = string(qi.ParentQueue)
		}
	}
	for _, q := range qids {
		qa := attrs[queueID(q)]
		if qa == nil {
			continue
		}
		w := total[q]
		gc, gm, gg := qa.ResourceShare(rs.CpuResource), qa.ResourceShare(rs.MemoryResource), qa.ResourceShare(rs.GpuResource)
		if !feq(gc.Allocated, w.cpu) || !feq(gm.Allocated, w.mem) || !feq(gg.Allocated, w.gpu) {
			fail("queue_allocated", "queue %s allocated cpu/mem/gpu = %v/%v/%v, recomputed from pods %v/%v/%v",
				q, gc.Allocated, gm.Allocated, gg.Allocated, w.cpu, w.mem, w.gpu)
		}
		if !feq(gc.AllocatedNotPreemptible, w.npCpu) || !feq(gm.AllocatedNotPreemptible, w.npMem) || !feq(gg.AllocatedNotPreemptible, w.npGpu) {
			fail("queue_allocated_nonpreemptible", "queue %s non-preemptible allocated cpu/mem/gpu = %v/%v/%v, recomputed from pods %v/%v/%v",
				q, gc.AllocatedNotPreemptible, gm.AllocatedNotPreemptible, gg.AllocatedNotPreemptible, w.npCpu, w.npMem, w.npGpu)
		}
	}
}

type qsum struct{ cpu, mem, gpu, npCpu, npMem, npGpu float64 }

func (a *qsum) add(b *qsum) {
	a.cpu += b.cpu
	a.mem += b.mem
	a.gpu += b.gpu
	a.npCpu += b.npCpu
	a.npMem += b.npMem
	a.npGpu += b.npGpu
}

func (o *AccountingOracle) checkJob(r *Run, ssn *framework.Session, job *podgroup_info.PodGroupInfo, fail func(string, string, ...any)) {
	all := job.GetAllPodsMap()
	alloc := resource_info.EmptyResource()
	activeAllocated := 0
	byStatus := map[pod_status.PodStatus]int{}
	for _, t := range all {
		byStatus[t.Status]++
		if pod_status.AllocatedStatus(t.Status) {
			alloc.AddResourceRequirements(t.ResReq)
		}
		if pod_status.IsActiveAllocatedStatus(t.Status) {
			activeAllocated++
		}
	}
	if d := resDiff(job.Allocated, alloc); d != "" {
		fail("job_allocated", "job %s Allocated %s (scheduler vs recomputed)", job.Name, d)
	}
	if d := vecDiff(job.AllocatedVector, job.Allocated, job.VectorMap); d != "" && len(job.AllocatedVector) > 0 {
		fail("job_vector_allocated", "job %s Allocated %s", job.Name, d)
	}
	if got := job.GetActiveAllocatedTasksCount(); got != activeAllocated {
		fail("job_active_allocated_count", "job %s active allocated count %d, recomputed from pod statuses %d", job.Name, got, activeAllocated)
	}
	idxTotal := 0
	for st, m := range job.PodStatusIndex {
		idxTotal += len(m)
		if len(m) != byStatus[st] {
			fail("job_status_index", "job %s status index has %d pods as %v, pods say %d", job.Name, len(m), st, byStatus[st])
		}
		for _, t := range m {
			if t.Status != st {
				fail("job_status_index", "job %s pod %s indexed as %v but is %v", job.Name, t.Name, st, t.Status)
			}
		}
	}
	if idxTotal != len(all) {
		fail("job_status_index", "job %s status index holds %d pods, job has %d", job.Name, idxTotal, len(all))
	}
	for name, ps := range job.PodSets {
		aa, au, al := 0, 0, 0
		for _, t := range ps.GetPodInfos() {
			if pod_status.IsActiveAllocatedStatus(t.Status) {
				aa++
			}
			if pod_status.IsActiveUsedStatus(t.Status) {
				au++
			}
			if pod_status.IsAliveStatus(t.Status) {
				al++
			}
		}
		if ps.GetNumActiveAllocatedTasks() != aa || ps.GetNumActiveUsedTasks() != au || ps.GetNumAliveTasks() != al {
			fail("podset_counters", "job %s pod set %s counters activeAllocated/activeUsed/alive = %d/%d/%d, recomputed %d/%d/%d",
				job.Name, name, ps.GetNumActiveAllocatedTasks(), ps.GetNumActiveUsedTasks(), ps.GetNumAliveTasks(), aa, au, al)
		}
	}
}

func statusClass(s pod_status.PodStatus) string {
	switch s {
	case pod_status.Pipelined:
		return "pipelined"
	case pod_status.Releasing:
		return "releasing"
	}
	return "allocated"
}
