package kaisim

// C11: binding is all-or-nothing — fault enumeration over every API call index of a reconcile.

import (
	"encoding/json"
	"fmt"
	"os"
	"sort"
	"strings"
	"testing"
	"testing/synctest"
	"time"

	corev1 "k8s.io/api/core/v1"
	resourceapi "k8s.io/api/resource/v1"
	metav1 "k8s.io/apimachinery/pkg/apis/meta/v1"
	"k8s.io/utils/ptr"

	bindv1alpha2 "github.com/NVIDIA/KAI-scheduler/pkg/apis/scheduling/v1alpha2"
)

// C11Case: one point of the enumerated space.
type C11Case struct {
	Shape  string         `json:"shape"`
	Faults map[int]string `json:"faults"` // call index -> kind, indices count over the whole attempt incl. rollback
	Agent  string         `json:"agent"`  // fast | silent
}

type c11Shape struct {
	name   string
	world  World
	pod    string
	node   string
	groups []string // SelectedGPUGroups of the request
	rtype  string
	portion string
	// DRA: the request carries an allocation for the pod's claim "acc"; stale = the claim is already allocated and still
	// reserved for an earlier pod of the same name (another UID), as a failed attempt followed by a re-creation leaves it
	dra      bool
	draStale bool
	// staleCMs: the GPU sharing ConfigMaps of an earlier pod of the same name (another UID, already deleted) still exist
	// when the request is reconciled: the garbage collector has not yet reached them
	staleCMs bool
}

func c11Shapes() []c11Shape {
	nodes := []NodeSpec{{Name: "n0", CPUm: 8000, MemMi: 16384, Pods: 20, GPUs: 4, GPUMemMi: 16000}, {Name: "n1", CPUm: 8000, MemMi: 16384, Pods: 20, GPUs: 2, GPUMemMi: 16000}}
	queues := []QueueSpec{{Name: "q0", GPU: QRes{-1, -1, 1}, CPU: QRes{-1, -1, 1}, Mem: QRes{-1, -1, 1}}}
	mk := func(name string, pod PodSpec, groups []string, rtype, portion string, extra ...WorkloadSpec) c11Shape {
		pod.Name, pod.State = "target", "pending"
		w := World{Nodes: nodes, Queues: queues}
		w.Workloads = append(w.Workloads, WorkloadSpec{Name: "wt", Queue: "q0", MinMember: 1, AgeSec: 10, Pods: []PodSpec{pod}})
		w.Workloads = append(w.Workloads, extra...)
		return c11Shape{name: name, world: w, pod: "target", node: "n0", groups: groups, rtype: rtype, portion: portion}
	}
	sharer := WorkloadSpec{Name: "ws", Queue: "q0", MinMember: 1, AgeSec: 100, Pods: []PodSpec{{Name: "sharer", CPUm: 100, MemMi: 128, Fraction: "0.3", State: "running", Node: "n0", GPUGroups: []string{"gold"}}}}
	draNodes := []NodeSpec{{Name: "n0", CPUm: 8000, MemMi: 16384, Pods: 20, GPUs: 4, GPUMemMi: 16000, DRADevices: 2}, {Name: "n1", CPUm: 8000, MemMi: 16384, Pods: 20, GPUs: 2, GPUMemMi: 16000, DRADevices: 2}}
	mkDRA := func(name string, stale bool) c11Shape {
		sh := mk(name, PodSpec{CPUm: 500, MemMi: 256, Claims: []ClaimRef{{Ref: "acc", Count: 1, Template: true}}}, nil, "Regular", "0")
		sh.world.Nodes = draNodes
		sh.dra, sh.draStale = true, stale
		return sh
	}
	return []c11Shape{
		mkDRA("dra-claim", false),
		mkDRA("dra-claim-stale-reservation", true),
		mk("cpu-only", PodSpec{CPUm: 500, MemMi: 256}, nil, "Regular", "0"),
		mk("whole-gpu", PodSpec{CPUm: 500, MemMi: 256, GPUs: 2}, nil, "Regular", "1"),
		mk("fraction-new-group", PodSpec{CPUm: 500, MemMi: 256, Fraction: "0.5"}, []string{"gnew"}, "Fraction", "0.50"),
		mk("fraction-existing-group", PodSpec{CPUm: 500, MemMi: 256, Fraction: "0.5"}, []string{"gold"}, "Fraction", "0.50", sharer),
		mk("gpu-memory-new-group", PodSpec{CPUm: 500, MemMi: 256, GPUMemMi: 4000}, []string{"gnew"}, "Fraction", "0.25"),
		mk("multi-fraction-2-new", PodSpec{CPUm: 500, MemMi: 256, Fraction: "0.5", NumDevices: 2}, []string{"gnewa", "gnewb"}, "Fraction", "0.50"),
		mk("multi-fraction-1-old-1-new", PodSpec{CPUm: 500, MemMi: 256, Fraction: "0.5", NumDevices: 2}, []string{"gold", "gnew"}, "Fraction", "0.50", sharer),
		staleCM(mk("fraction-recreated-pod-stale-configmaps", PodSpec{CPUm: 500, MemMi: 256, Fraction: "0.5"}, []string{"gnew"}, "Fraction", "0.50")),
	}
}

func staleCM(sh c11Shape) c11Shape { sh.staleCMs = true; return sh }

type c11Outcome struct {
	Calls     []BinderCall `json:"calls"`
	K         int          `json:"k"`
	Crashed   int          `json:"crashed_at,omitempty"`
	Err       string       `json:"err,omitempty"`
	Violation []Violation  `json:"violations,omitempty"`
	Class     string       `json:"class"` // bound | unbound
}

// runC11Case executes one case in a bubble: first attempt under the fault plan, then the oracle on
// the API store (after the agent and one Sync), then fault-free retries.
func runC11Case(t *testing.T, c C11Case) (out c11Outcome) {
	var shape *c11Shape
	for _, s := range c11Shapes() {
		if s.name == c.Shape {
			s := s
			shape = &s
		}
	}
	if shape == nil {
		out.Violation = append(out.Violation, Violation{Prop: "INFRA", Rule: "unknown_shape", Detail: c.Shape})
		return
	}
	fail := func(rule, format string, args ...any) {
		out.Violation = append(out.Violation, Violation{Prop: "C11", Rule: rule, Detail: fmt.Sprintf("shape %s faults %v agent %s: ", c.Shape, c.Faults, c.Agent) + fmt.Sprintf(format, args...)})
	}
	func() {
		defer func() {
			if p := recover(); p != nil {
				if msg := fmt.Sprint(p); !strings.Contains(msg, "deadlock: main bubble goroutine has exited") {
					out.Violation = append(out.Violation, Violation{Prop: "INFRA", Rule: "harness_panic", Detail: msg})
				}
			}
		}()
		synctest.Test(t, func(t *testing.T) {
			api := NewSimAPI(shape.world.Objects())
			br := &bindv1alpha2.BindRequest{
				TypeMeta:   metav1.TypeMeta{APIVersion: "scheduling.run.ai/v1alpha2", Kind: "BindRequest"},
				ObjectMeta: metav1.ObjectMeta{Name: shape.pod, Namespace: NS, OwnerReferences: []metav1.OwnerReference{{APIVersion: "v1", Kind: "Pod", Name: shape.pod, UID: "pod-" + "target"}}},
				Spec: bindv1alpha2.BindRequestSpec{PodName: shape.pod, SelectedNode: shape.node, SelectedGPUGroups: shape.groups, ReceivedResourceType: shape.rtype,
					ReceivedGPU: &bindv1alpha2.ReceivedGPU{Count: max(1, len(shape.groups)), Portion: shape.portion}, BackoffLimit: ptr.To(int32(5))},
			}
			bopts := []string{"k8s-plugins"}
			if shape.dra {
				br.Spec.ResourceClaimAllocations = []bindv1alpha2.ResourceClaimAllocation{{Name: "acc", Allocation: buildAllocation(shape.node, []string{draDeviceName(0)})}}
				if shape.draStale {
					c := api.Claim(ownClaimName(shape.pod, ClaimRef{Ref: "acc"})).DeepCopy()
					c.Status.Allocation = buildAllocation(shape.node, []string{draDeviceName(0)})
					c.Status.ReservedFor = []resourceapi.ResourceClaimConsumerReference{{Resource: "pods", Name: shape.pod, UID: "uid-of-the-earlier-incarnation"}}
					api.updateClaim(c)
				}
			}
			if shape.staleCMs {
				base := api.Pod(NS, shape.pod).Annotations["runai/shared-gpu-configmap"]
				old := []metav1.OwnerReference{{APIVersion: "v1", Kind: "Pod", Name: shape.pod, UID: "uid-of-the-earlier-incarnation"}}
				must(api.Tracker.Add(&corev1.ConfigMap{TypeMeta: metav1.TypeMeta{APIVersion: "v1", Kind: "ConfigMap"}, ObjectMeta: metav1.ObjectMeta{Name: base + "-0", Namespace: NS, OwnerReferences: old},
					Data: map[string]string{"GPU_PORTION": "0.25", "GPU_MEMORY_LIMIT": "1"}}))
				must(api.Tracker.Add(&corev1.ConfigMap{TypeMeta: metav1.TypeMeta{APIVersion: "v1", Kind: "ConfigMap"}, ObjectMeta: metav1.ObjectMeta{Name: base + "-0-evar", Namespace: NS, OwnerReferences: old},
					Data: map[string]string{"NVIDIA_VISIBLE_DEVICES": "7"}}))
			}
			must(api.Tracker.Add(br))
			b := NewBinderActor(api, 40*time.Second, bopts...)
			if c.Agent == "silent" {
				b.AgentDelay = -1
			}
			b.Plan = c.Faults
			_, err, crashed := b.Reconcile(NS, shape.pod)
			out.Calls = b.CallLog()
			out.K = len(out.Calls)
			out.Crashed = crashed
			if err != nil {
				out.Err = err.Error()
			}
			synctest.Wait()
			time.Sleep(5 * time.Second) // let a late agent annotate
			synctest.Wait()
			binds := append([]string(nil), api.Binds...)
			// "a crash" = the binder restarts: new incarnation, nothing but the API store survives
			b.Plan = map[int]string{}
			b.ResetCalls()
			b.AgentDelay = time.Second
			if crashed > 0 {
				b = NewBinderActor(api, 40*time.Second, bopts...)
			}
			if err := b.Sync(); err != nil {
				fail("sync_error", "fault-free Sync after the attempt failed: %v", err)
			}
			pod := api.Pod(NS, shape.pod)
			curBR := getBR(api, shape.pod)
			if pod == nil || curBR == nil {
				fail("objects_lost", "pod or BindRequest disappeared")
				return
			}
			if len(binds) > 1 {
				fail("bound_twice", "pods/binding create applied %d times: %v", len(binds), binds)
			}
			lostBind := false
			for _, cl := range out.Calls {
				if cl.Verb == "create/binding" && cl.Fault == "after" {
					lostBind = true
				}
			}
			if lostBind {
				inner := fail
				fail = func(rule, format string, args ...any) { inner(rule+"_after_lost_bind_response", format, args...) }
			}
			if pod.Spec.NodeName != "" {
				out.Class = "bound"
				c11CheckBound(api, shape, pod, curBR, crashed > 0 || hasAfterFault(c.Faults) || statusPatchFaulted(out.Calls), fail)
			} else {
				out.Class = "unbound"
				if crashed == 0 && c.Faults[1] == "" && curBR.Status.Phase != bindv1alpha2.BindRequestPhaseFailed && !statusPatchFaulted(out.Calls) {
					fail("unbound_not_reported_failed", "pod is unbound but the request phase is %q (err=%v)", curBR.Status.Phase, out.Err)
				}
				c11CheckUnboundClean(api, shape, pod, out.Calls, fail)
			}
			// later fault-free attempts succeed
			for i := 0; i < 3; i++ {
				if p := api.Pod(NS, shape.pod); p != nil && p.Spec.NodeName != "" {
					if cb := getBR(api, shape.pod); cb != nil && cb.Status.Phase == bindv1alpha2.BindRequestPhaseSucceeded {
						break
					}
				}
				b.ResetCalls()
				b.Reconcile(NS, shape.pod)
				synctest.Wait()
			}
			pod = api.Pod(NS, shape.pod)
			curBR = getBR(api, shape.pod)
			if pod.Spec.NodeName == "" {
				fail("retry_does_not_bind", "after three fault-free reconciles the pod is still unbound (request phase %q reason %q)", curBR.Status.Phase, curBR.Status.Reason)
			} else {
				if len(api.Binds) > 1 {
					fail("bound_twice", "pods/binding create applied %d times over all attempts: %v", len(api.Binds), api.Binds)
				}
				c11CheckBound(api, shape, pod, curBR, false, fail)
			}
			// a request that already Succeeded / a pod already bound is a no-op
			before := mutationCount(api)
			b.ResetCalls()
			b.Reconcile(NS, shape.pod)
			for _, cl := range b.CallLog() {
				if cl.Verb != "get" && cl.Verb != "list" && cl.Verb != "watch" {
					fail("succeeded_not_noop", "reconcile of a Succeeded request issued %s", cl)
				}
			}
			_ = before
		})
	}()
	return
}

func mutationCount(api *SimAPI) int { return len(api.Binds) }

func getBR(api *SimAPI, name string) *bindv1alpha2.BindRequest {
	for _, b := range api.BindRequests() {
		if b.Name == name {
			return b
		}
	}
	return nil
}

func hasAfterFault(f map[int]string) bool {
	for _, k := range f {
		if k == "after" {
			return true
		}
	}
	return false
}

func statusPatchFaulted(calls []BinderCall) bool {
	for _, c := range calls {
		if c.Verb == "patch/status" && c.Kind == "bindrequests" && c.Fault != "" {
			return true
		}
	}
	return false
}

func c11CheckBound(api *SimAPI, shape *c11Shape, pod *corev1.Pod, br *bindv1alpha2.BindRequest, statusMayLag bool, fail func(string, string, ...any)) {
	if pod.Spec.NodeName != shape.node {
		fail("wrong_node", "pod bound to %q, request selects %q", pod.Spec.NodeName, shape.node)
	}
	if br.Status.Phase != bindv1alpha2.BindRequestPhaseSucceeded && !statusMayLag {
		fail("bound_not_reported", "pod is bound but the request phase is %q", br.Status.Phase)
	}
	if shape.dra {
		// "bound ... with its side objects in place (... claim reservations)": the claim holds the promised allocation and
		// is reserved for THIS pod (by UID)
		c := api.Claim(ownClaimName(shape.pod, ClaimRef{Ref: "acc"}))
		switch {
		case c == nil:
			fail("bound_claim_missing", "bound pod's resource claim does not exist")
		case c.Status.Allocation == nil:
			fail("bound_claim_not_allocated", "pod is bound but its resource claim %s is not allocated", c.Name)
		default:
			var devs []string
			for _, d := range c.Status.Allocation.Devices.Results {
				devs = append(devs, d.Pool+"/"+d.Device)
			}
			if strings.Join(devs, ",") != shape.node+"/"+draDeviceName(0) {
				fail("bound_claim_wrong_devices", "bound pod's claim holds %v, the request promised %s/%s", devs, shape.node, draDeviceName(0))
			}
			reserved := false
			var cons []string
			for _, rf := range c.Status.ReservedFor {
				cons = append(cons, rf.Name+"/"+string(rf.UID))
				if rf.UID == pod.UID {
					reserved = true
				}
			}
			if !reserved {
				fail("bound_claim_not_reserved", "pod %s (uid %s) is bound but its resource claim %s is reserved for %v only", pod.Name, pod.UID, c.Name, cons)
			}
		}
	}
	if len(shape.groups) == 0 {
		return
	}
	got := PodGroups(pod)
	want := append([]string(nil), shape.groups...)
	sort.Strings(got)
	sort.Strings(want)
	if strings.Join(got, ",") != strings.Join(want, ",") {
		fail("bound_wrong_groups", "bound pod carries GPU groups %v, request selected %v", got, want)
	}
	var idx []string
	for _, g := range shape.groups {
		found := ""
		n := 0
		for _, p := range api.Pods() {
			if IsReservationPod(p) && p.Labels[GPUGroupLabel] == g {
				n++
				found = p.Annotations[GPUIndexAnnot]
				if p.Spec.NodeName != shape.node {
					fail("reservation_wrong_node", "reservation pod of group %s is on %s", g, p.Spec.NodeName)
				}
			}
		}
		if n != 1 {
			fail("bound_reservation_pods", "bound pod's group %s has %d reservation pods", g, n)
		}
		idx = append(idx, found)
	}
	api.GCOrphans() // the garbage collector catches up: what is owned only by pods that no longer exist goes away
	base := pod.Annotations["runai/shared-gpu-configmap"]
	var evar, caps *corev1.ConfigMap
	for _, cm := range api.ConfigMaps() {
		if cm.Name == base+"-0-evar" {
			evar = cm
		}
		if cm.Name == base+"-0" {
			caps = cm
		}
	}
	if evar == nil || caps == nil {
		fail("bound_configmaps_missing", "bound pod's GPU sharing ConfigMaps are missing")
		return
	}
	if evar.Data["NVIDIA_VISIBLE_DEVICES"] != strings.Join(idx, ",") {
		fail("bound_wrong_devices", "NVIDIA_VISIBLE_DEVICES=%q, reservation pods report %v", evar.Data["NVIDIA_VISIBLE_DEVICES"], idx)
	}
	if caps.Data["GPU_PORTION"] != shape.portion {
		fail("bound_wrong_portion", "GPU_PORTION=%q, request says %q", caps.Data["GPU_PORTION"], shape.portion)
	}
	if pod.Annotations["received-resource-type"] != shape.rtype {
		fail("bound_wrong_received_type", "received-resource-type=%q, request says %q", pod.Annotations["received-resource-type"], shape.rtype)
	}
}

func c11CheckUnboundClean(api *SimAPI, shape *c11Shape, pod *corev1.Pod, calls []BinderCall, fail func(string, string, ...any)) {
	if shape.dra {
		// the attempt's claim reservation must be gone (or removable by a sync) when the pod ends unbound: otherwise the
		// claim pins the still pending pod to the node of the failed attempt
		if c := api.Claim(ownClaimName(shape.pod, ClaimRef{Ref: "acc"})); c != nil {
			for _, rf := range c.Status.ReservedFor {
				if rf.UID == pod.UID {
					fail("unbound_keeps_claim_reservation", "pod is unbound but its resource claim %s is still reserved for it (allocated: %v) after the failed attempt and a Sync", c.Name, c.Status.Allocation != nil)
				}
			}
			if c.Status.Allocation != nil && !shape.draStale && len(c.Status.ReservedFor) == 0 {
				fail("unbound_keeps_claim_allocation", "pod is unbound but its resource claim %s stays allocated by the failed attempt", c.Name)
			}
		}
	}
	// after one Sync: no reservation pod for a group nobody (bound) uses, unless the pod still carries
	// the group label because removing that label was itself the failing call
	labelled := map[string]bool{}
	for _, g := range PodGroups(pod) {
		labelled[g] = true
	}
	for _, g := range shape.groups {
		if g == "gold" {
			continue
		}
		for _, p := range api.Pods() {
			if IsReservationPod(p) && p.Labels[GPUGroupLabel] == g && !labelled[g] {
				fail("unbound_leaks_reservation", "pod is unbound and not labelled with group %s but its reservation pod %s survives a Sync", g, p.Name)
			}
		}
	}
	if len(labelled) > 0 {
		rule := "unbound_keeps_group_label"
		for _, c := range calls {
			if c.Fault != "" && c.Verb == "patch" && c.Kind == "pods" {
				rule = "unbound_keeps_group_label_after_failed_pod_patch"
			}
		}
		for _, c := range calls {
			if c.Fault == "crash" {
				rule = "unbound_keeps_group_label_after_crash"
			}
		}
		fail(rule, "pod is unbound but still carries GPU group labels %v", PodGroups(pod))
	}
}

// RunC11 enumerates the space for this worker's share of shapes.
func RunC11(t *testing.T, ws *WorkerStats, worker, workers int, thorough bool, known []KnownFinding) {
	shapes := c11Shapes()
	start := time.Now()
	distinct := map[string]bool{}
	for si, shape := range shapes {
		if si%workers != worker {
			continue
		}
		for _, agent := range []string{"fast", "silent"} {
			base := runC11Case(t, C11Case{Shape: shape.name, Faults: map[int]string{}, Agent: agent})
			ws.Runs++
			c11Record(t, ws, C11Case{Shape: shape.name, Faults: map[int]string{}, Agent: agent}, base, known, distinct)
			if ws.Violation != nil {
				return
			}
			K := base.K
			kinds := func(c BinderCall) []string {
				switch {
				case c.Verb == "get" || c.Verb == "list" || c.Verb == "watch":
					return []string{"error", "crash"}
				case strings.HasPrefix(c.Verb, "patch") || c.Verb == "update":
					return []string{"error", "after", "conflict", "crash"}
				default:
					return []string{"error", "after", "crash"}
				}
			}
			// single faults: every k, and the extra calls of the failure path are enumerated too by
			// following the call log of each faulted run (second fault on the rollback calls)
			for k := 1; k <= K; k++ {
				for _, kind := range kinds(base.Calls[k-1]) {
					c := C11Case{Shape: shape.name, Faults: map[int]string{k: kind}, Agent: agent}
					o := runC11Case(t, c)
					ws.Runs++
					c11Record(t, ws, c, o, known, distinct)
					if ws.Violation != nil {
						return
					}
					if agent == "silent" && !thorough {
						continue
					}
					// second fault positions: calls after k in THIS run (includes Rollback calls)
					step := 1
					if !thorough {
						step = 3
					}
					for k2 := k + 1; k2 <= o.K; k2 += step {
						for _, kind2 := range kinds(o.Calls[k2-1]) {
							if !thorough && kind2 == "after" {
								continue
							}
							c2 := C11Case{Shape: shape.name, Faults: map[int]string{k: kind, k2: kind2}, Agent: agent}
							o2 := runC11Case(t, c2)
							ws.Runs++
							c11Record(t, ws, c2, o2, known, distinct)
							if ws.Violation != nil {
								return
							}
						}
					}
				}
			}
		}
	}
	ws.WallSeconds = time.Since(start).Seconds()
	ws.Distinct = len(distinct)
}

func c11Record(t *testing.T, ws *WorkerStats, c C11Case, o c11Outcome, known []KnownFinding, distinct map[string]bool) {
	sig := fmt.Sprintf("%s|%v|%s|%s|%d", c.Shape, c.Faults, c.Agent, o.Class, o.K)
	distinct[sig] = true
	ws.ntHashes[hashStrings([]string{sig})] = struct{}{}
	ws.NonTrivial++
	ws.Profiles[c.Shape]++
	ws.Probes["outcome_"+o.Class]++
	for _, k := range c.Faults {
		ws.Faults[k]++
	}
	if o.Crashed > 0 {
		ws.Probes["crashed"]++
	}
	if len(ws.Samples) < 2 && len(c.Faults) > 0 {
		b, _ := json.Marshal(map[string]any{"case": c, "calls": o.Calls, "outcome": o.Class, "err": o.Err})
		ws.Samples = append(ws.Samples, b)
	}
	for _, v := range o.Violation {
		if k := matchKnown(known, v); k != nil {
			ws.Known[k.Prop+" "+k.What]++
			continue
		}
		if ws.Census != nil || os.Getenv("KAISIM_CENSUS") != "" {
			if ws.Census == nil {
				ws.Census, ws.CensusEx = map[string]int{}, map[string]string{}
			}
			ws.Census[v.Class()]++
			if _, ok := ws.CensusEx[v.Class()]; !ok {
				ws.CensusEx[v.Class()] = v.Detail
			}
			continue
		}
		vv := v
		ws.Violation = &vv
		dir := os.Getenv("KAISIM_REPLAY_DIR")
		path := fmt.Sprintf("%s/C11-%d.json", dir, ws.Seed)
		b, _ := json.MarshalIndent(map[string]any{"property": "C11", "class": v.Class(), "detail": v.Detail, "c11_case": c, "calls": o.Calls}, "", " ")
		_ = os.WriteFile(path, b, 0o644)
		ws.Replay = path
		return
	}
}
