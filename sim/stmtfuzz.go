package kaisim

// C13: a registered action ("verif-stmtfuzz") drives framework.Statement inside real sessions
// with scripted programs over the public API the solvers use, and compares canonical dumps of the
// session's view before/after Discard and Rollback, and the emitted calls on Commit.

import (
	resourceapi "k8s.io/api/resource/v1"
	"os"
	"fmt"
	"math"
	"regexp"
	"sort"
	"strings"

	"github.com/NVIDIA/KAI-scheduler/pkg/scheduler/actions/common"
	"github.com/NVIDIA/KAI-scheduler/pkg/scheduler/api/eviction_info"
	"github.com/NVIDIA/KAI-scheduler/pkg/scheduler/api/node_info"
	"github.com/NVIDIA/KAI-scheduler/pkg/scheduler/api/pod_info"
	"github.com/NVIDIA/KAI-scheduler/pkg/scheduler/api/pod_status"
	"github.com/NVIDIA/KAI-scheduler/pkg/scheduler/api/podgroup_info"
	"github.com/NVIDIA/KAI-scheduler/pkg/scheduler/api/resource_info"
	"github.com/NVIDIA/KAI-scheduler/pkg/scheduler/framework"
	"github.com/NVIDIA/KAI-scheduler/pkg/scheduler/plugins/proportion"
	rs "github.com/NVIDIA/KAI-scheduler/pkg/scheduler/plugins/proportion/resource_share"
)

type StmtOp struct {
	Kind string `json:"k"` // evict | allocjob | unevict | checkpoint | rollback | convert | end
	A    int    `json:"a,omitempty"`
	B    int    `json:"b,omitempty"`
}

type stmtFuzzAction struct{}

func (stmtFuzzAction) Name() framework.ActionType { return "verif-stmtfuzz" }

func (stmtFuzzAction) Execute(ssn *framework.Session) {
	curMu.Lock()
	h := curHooks
	curMu.Unlock()
	if r, ok := h.(*Run); ok && r != nil {
		r.stmtFuzz(ssn)
	}
}

// DumpSession: canonical dump of what C13 calls "the scheduler's view".
func DumpSession(ssn *framework.Session) string {
	var b strings.Builder
	names := make([]string, 0, len(ssn.ClusterInfo.Nodes))
	for n := range ssn.ClusterInfo.Nodes {
		names = append(names, n)
	}
	sort.Strings(names)
	normI := func(m map[string]int64) string {
		var ks []string
		for k, v := range m {
			if v != 0 {
				ks = append(ks, fmt.Sprintf("%s=%d", k, v))
			}
		}
		sort.Strings(ks)
		return strings.Join(ks, ",")
	}
	for _, n := range names {
		ni := ssn.ClusterInfo.Nodes[n]
		fmt.Fprintf(&b, "node %s idle=%s used=%s rel=%s\n", n, fmtRes(ni.Idle), fmtRes(ni.Used), fmtRes(ni.Releasing))
		var rg []string
		for g, v := range ni.ReleasingSharedGPUs {
			if v {
				rg = append(rg, g)
			}
		}
		sort.Strings(rg)
		fmt.Fprintf(&b, "  gpu used[%s] alloc[%s] rel[%s] relmark%v\n", normI(ni.UsedSharedGPUsMemory), normI(ni.AllocatedSharedGPUsMemory), normI(ni.ReleasingSharedGPUsMemory), rg)
		for _, p := range sortedPodInfos(ni.PodInfos) {
			groups := ""
			if pod_status.IsActiveUsedStatus(p.Status) {
				groups = fmt.Sprint(p.GPUGroups)
			}
			fmt.Fprintf(&b, "  pod %s %v %s\n", p.Name, statusClass(p.Status), groups)
		}
	}
	jobs := make([]string, 0, len(ssn.ClusterInfo.PodGroupInfos))
	for j := range ssn.ClusterInfo.PodGroupInfos {
		jobs = append(jobs, string(j))
	}
	sort.Strings(jobs)
	for _, jn := range jobs {
		job := ssn.ClusterInfo.PodGroupInfos[podGroupID(jn)]
		fmt.Fprintf(&b, "job %s allocated=%s active=%d\n", jn, fmtRes(job.Allocated), job.GetActiveAllocatedTasksCount())
		for _, t := range sortedPodInfos(job.GetAllPodsMap()) {
			groups := ""
			if pod_status.IsActiveUsedStatus(t.Status) {
				groups = fmt.Sprint(t.GPUGroups)
			}
			virt := t.IsVirtualStatus && t.Status != pod_status.Pending // the flag of a Pending task has no reader outside CSI storage scheduling
			fmt.Fprintf(&b, "  task %s %v node=%s virt=%v %s\n", t.Name, t.Status, t.NodeName, virt, groups)
		}
		for _, sn := range sortedKeys(job.PodSets) {
			ps := job.PodSets[sn]
			fmt.Fprintf(&b, "  set %s %d/%d/%d\n", sn, ps.GetNumActiveAllocatedTasks(), ps.GetNumActiveUsedTasks(), ps.GetNumAliveTasks())
		}
	}
	b.WriteString(dumpDRA(ssn))
	if attrs, _ := proportion.QueueAttributesForSim(ssn.PluginForSim("proportion")); attrs != nil {
		var qs []string
		for q := range attrs {
			qs = append(qs, string(q))
		}
		sort.Strings(qs)
		for _, q := range qs {
			qa := attrs[queueID(q)]
			for _, res := range rs.AllResources {
				sh := qa.ResourceShare(res)
				nz := func(x float64) float64 {
					x = math.Round(x*1e6) / 1e6
					if x == 0 {
						return 0
					}
					return x
				}
				fmt.Fprintf(&b, "queue %s %s alloc=%v np=%v\n", q, res, nz(sh.Allocated), nz(sh.AllocatedNotPreemptible))
			}
		}
	}
	return b.String()
}

var gpusField = regexp.MustCompile(`Gpus: [^ ,]+`)

var _ = math.Abs

// gpuCounterOnlyDiff: the dumps differ only in whole-GPU idle/releasing counters of nodes
// (signature of the shared-GPU counter known finding).
func gpuCounterOnlyDiff(a, b string) bool {
	la, lb := strings.Split(a, "\n"), strings.Split(b, "\n")
	if len(la) != len(lb) {
		return false
	}
	diff := false
	for i := range la {
		if la[i] == lb[i] {
			continue
		}
		if !strings.HasPrefix(la[i], "node ") || gpusField.ReplaceAllString(la[i], "Gpus: X") != gpusField.ReplaceAllString(lb[i], "Gpus: X") {
			return false
		}
		diff = true
	}
	return diff
}

func fmtRes(r *resource_info.Resource) string {
	z := func(x float64) float64 {
		x = math.Round(x*1e6) / 1e6
		if x == 0 {
			return 0
		}
		return x
	}
	var sc []string
	for k, v := range r.ScalarResources() {
		if v != 0 {
			sc = append(sc, fmt.Sprintf("%s=%d", k, v))
		}
	}
	sort.Strings(sc)
	return fmt.Sprintf("CPU: %v memory: %v Gpus: %v scalars: %v", z(r.Cpu()), z(r.Memory()), z(r.GPUs()), sc)
}

func firstDiff(a, b string) string {
	la, lb := strings.Split(a, "\n"), strings.Split(b, "\n")
	for i := 0; i < len(la) && i < len(lb); i++ {
		if la[i] != lb[i] {
			return fmt.Sprintf("expected %q, got %q", la[i], lb[i])
		}
	}
	if len(la) != len(lb) {
		return fmt.Sprintf("dump length %d vs %d", len(la), len(lb))
	}
	return ""
}

func (r *Run) stmtFuzz(ssn *framework.Session) {
	prog := r.S.StmtProgram
	if len(prog) == 0 {
		return
	}
	nodes := make([]*node_info.NodeInfo, 0, len(ssn.ClusterInfo.Nodes))
	for _, n := range ssn.ClusterInfo.Nodes {
		nodes = append(nodes, n)
	}
	sort.Slice(nodes, func(i, j int) bool { return nodes[i].Name < nodes[j].Name })
	pc := 0
	for pc < len(prog) {
		stmt := ssn.Statement()
		start := DumpSession(ssn)
		draBrokenAtStart := false
		if r.S.World.HasDRA() {
			l, g, d := draTrackerMismatch(ssn)
			draBrokenAtStart = len(l)+len(g)+len(d) > 0 || r.draDouble
		}
	if os.Getenv("KAISIM_DEBUG_DRA") != "" {
		fmt.Printf("DRA-AT-START cycle=%d\n%s", r.cycle, dumpDRA(ssn))
	}
		type cpRec struct {
			cp   framework.Checkpoint
			dump string
		}
		var cps []cpRec
		evicted := []*pod_info.PodInfo{}
		touched := map[string]bool{}
		unevictedOnce := map[string]bool{} // pods evicted and un-evicted again within the current statement
		tainted := "" // known-finding signature seen inside this statement
		nOps := 0
		converted := false
		decBefore := len(r.Sched.Obs.Decisions)
		for ; pc < len(prog); pc++ {
			op := prog[pc]
			if op.Kind == "end" {
				break
			}
			nOps++
			switch op.Kind {
			case "evict":
				var cands []*pod_info.PodInfo
				for _, job := range ssn.ClusterInfo.PodGroupInfos {
					for _, t := range job.GetAllPodsMap() {
						// well-formed victims: really allocated (not only nominated), not already evicted
						if pod_status.AllocatedStatus(t.Status) && t.Status != pod_status.Allocated && t.NodeName != "" {
							cands = append(cands, t)
						}
					}
				}
				if len(cands) == 0 {
					continue
				}
				sort.Slice(cands, func(i, j int) bool { return cands[i].Name < cands[j].Name })
				t := cands[op.A%len(cands)]
				// B odd: prefer a pod this statement has already evicted and un-evicted (evict / un-evict / evict again)
				if op.B%2 == 1 {
					for _, c := range cands {
						if unevictedOnce[c.Name] {
							t = c
							r.Probe("c13_op_re_evict")
							break
						}
					}
				}
				if err := stmt.Evict(t, "fuzz", eviction_info.EvictionMetadata{Action: "reclaim", EvictionGangSize: 1}); err == nil {
					evicted = append(evicted, t)
					touched[t.Name] = true
					r.Probe("c13_op_evict")
				}
			case "reevict": // evict, un-evict, evict again (and, B odd, un-evict again) the same running pod in one statement
				var cands []*pod_info.PodInfo
				for _, job := range ssn.ClusterInfo.PodGroupInfos {
					for _, t := range job.GetAllPodsMap() {
						if pod_status.AllocatedStatus(t.Status) && t.Status != pod_status.Allocated && t.NodeName != "" {
							cands = append(cands, t)
						}
					}
				}
				if len(cands) == 0 {
					continue
				}
				sort.Slice(cands, func(i, j int) bool { return cands[i].Name < cands[j].Name })
				t := cands[op.A%len(cands)]
				md := eviction_info.EvictionMetadata{Action: "reclaim", EvictionGangSize: 1}
				if stmt.Evict(t, "fuzz", md) != nil {
					continue
				}
				touched[t.Name] = true
				if !(t.Status == pod_status.Releasing && t.IsVirtualStatus) || stmt.Unevict(t) != nil {
					evicted = append(evicted, t)
					continue
				}
				if stmt.Evict(t, "fuzz", md) != nil {
					continue
				}
				r.Probe("c13_op_re_evict")
				if op.B%2 == 1 && t.Status == pod_status.Releasing && t.IsVirtualStatus && stmt.Unevict(t) == nil {
					r.Probe("c13_op_re_unevict")
					continue
				}
				evicted = append(evicted, t)
			case "unevict":
				if len(evicted) == 0 {
					continue
				}
				i := op.A % len(evicted)
				t := evicted[i]
				if t.Status == pod_status.Releasing && t.IsVirtualStatus {
					if err := stmt.Unevict(t); err == nil {
						r.Probe("c13_op_unevict")
						unevictedOnce[t.Name] = true
					}
				}
				evicted = append(evicted[:i], evicted[i+1:]...)
			case "allocjob":
				var cands []*podgroup_info.PodGroupInfo
				for _, job := range ssn.ClusterInfo.PodGroupInfos {
					if len(job.PodStatusIndex[pod_status.Pending]) > 0 && job.IsReadyForScheduling() {
						if _, ok := ssn.ClusterInfo.Queues[job.Queue]; ok {
							cands = append(cands, job)
						}
					}
				}
				if len(cands) == 0 {
					continue
				}
				sort.Slice(cands, func(i, j int) bool { return cands[i].Name < cands[j].Name })
				job := cands[op.A%len(cands)]
				before := len(r.allocEvents)
				ok := common.AllocateJob(ssn, stmt, nodes, job, op.B%2 == 1)
				for _, n := range r.allocEvents[before:] {
					touched[n] = true
				}
				if ok {
					r.Probe("c13_op_allocjob_ok")
				} else {
					r.Probe("c13_op_allocjob_failed")
				}
			case "checkpoint":
				cps = append(cps, cpRec{stmt.Checkpoint(), DumpSession(ssn)})
				r.Probe("c13_op_checkpoint")
			case "rollback":
				if len(cps) == 0 {
					continue
				}
				i := op.A % len(cps)
				if err := stmt.Rollback(cps[i].cp); err != nil {
					r.Fail("C13", "rollback_error", "Rollback to a checkpoint of the same statement failed: %v", err)
				}
				r.Probe("c13_op_rollback")
				if now := DumpSession(ssn); firstDiff(cps[i].dump, now) != "" {
					d := firstDiff(cps[i].dump, now)
					rule := "rollback_not_restoring"
					if s := r.c13Signature(); s != "" {
						rule += s
					} else if gpuCounterOnlyDiff(stripDRA(cps[i].dump), stripDRA(now)) {
						// (the claim lines of the view may differ as well: open DRA findings)
						rule += "_shared_gpu_counters"
					} else if unconsumedClaimOnlyDiff(cps[i].dump, now) {
						rule += "_unconsumed_claim_deallocated"
					} else if draBrokenAtStart {
						rule += "_dra_view_inconsistent_before"
					} else if draOnlyDiff(cps[i].dump, now) {
						rule += "_dra_claims"
					}
					r.Fail("C13", rule, "after Rollback to checkpoint %d (statement program %v): %s", i, prog, d)
				}
				cps = cps[:i+1]
				evicted = nil
				unevictedOnce = map[string]bool{}
			case "convert":
				var js []string
				for _, job := range ssn.ClusterInfo.PodGroupInfos {
					if len(job.PodStatusIndex[pod_status.Allocated]) > 0 {
						js = append(js, string(job.UID))
					}
				}
				if len(js) == 0 {
					continue
				}
				sort.Strings(js)
				if err := stmt.ConvertAllAllocatedToPipelined(podGroupID(js[op.A%len(js)])); err == nil {
					r.Probe("c13_op_convert")
				}
				// the conversion rewrites the statement's operation list: earlier checkpoints are no
				// longer meaningful (actions never roll back across it) and the statement is committed
				cps = nil
				converted = true
			}
		}
		endOp := StmtOp{Kind: "end"}
		if pc < len(prog) {
			endOp = prog[pc]
			pc++
		}
		_ = tainted
		if nOps == 0 {
			continue
		}
		if endOp.B%3 != 0 && !converted { // discard twice as often as commit
			stmt.Discard()
			r.Probe("c13_discard")
			if now := DumpSession(ssn); firstDiff(start, now) != "" {
				d := firstDiff(start, now)
				rule := "discard_not_restoring"
				if s := r.c13Signature(); s != "" {
					rule += s
				} else if gpuCounterOnlyDiff(stripDRA(start), stripDRA(now)) {
					rule += "_shared_gpu_counters"
				} else if unconsumedClaimOnlyDiff(start, now) {
					rule += "_unconsumed_claim_deallocated"
				} else if draBrokenAtStart {
					rule += "_dra_view_inconsistent_before"
				} else if draOnlyDiff(start, now) {
					rule += "_dra_claims"
				}
				r.Fail("C13", rule, "after Discard (statement program %v): %s", prog, d)
			}
			if n := len(r.Sched.Obs.Decisions) - decBefore; n != 0 {
				r.Fail("C13", "discard_emitted_calls", "a discarded statement emitted %d Bind/Evict/TaskPipelined calls", n)
			}
		} else {
			_ = stmt.Commit()
			r.Probe("c13_commit")
			seen := map[string]int{}
			for _, d := range r.Sched.Obs.Decisions[decBefore:] {
				seen[d.Kind+" "+d.Pod]++
				if !touched[d.Pod] {
					r.Fail("C13", "commit_untouched_pod", "Commit emitted %s for pod %s which no step of the statement touched", d.Kind, d.Pod)
				}
			}
			for k, n := range seen {
				if n > 1 {
					r.Fail("C13", "commit_duplicate_call", "Commit emitted %q %d times", k, n)
				}
			}
		}
	}
}

// c13Signature: known-finding signatures (see oracle_accounting.go) observed in this session.
func (r *Run) c13Signature() string {
	for _, o := range r.oracle {
		if a, ok := o.(*AccountingOracle); ok {
			switch {
			case a.pipelinedVictim:
				return "_after_pipelined_victim"
			case a.gpuMove:
				return "_after_fraction_gpu_move"
			case a.doubleEvict:
				return "_after_double_evict"
			}
		}
	}
	return ""
}

// dumpDRA: the scheduler's view of resource claims (the DRA manager's assume cache): per claim the allocated devices and
// the consumers, plus the set of devices it considers allocated, plus what every active task remembers about its claims.
func dumpDRA(ssn *framework.Session) (out string) {
	defer func() {
		if recover() != nil {
			out = ""
		}
	}()
	kp := ssn.InternalK8sPlugins()
	if kp == nil || kp.FrameworkHandle == nil {
		return ""
	}
	mgr := kp.FrameworkHandle.SharedDRAManager()
	if mgr == nil {
		return ""
	}
	claims, err := mgr.ResourceClaims().List()
	if err != nil || len(claims) == 0 {
		return ""
	}
	var lines []string
	for _, c := range claims {
		if mgr.ResourceClaims().ClaimHasPendingAllocation(c.UID) {
			// the claim's allocation is in flight (its pod is being bound): the assume cache may or may not hold the
			// allocation as well, which no reader can tell apart; the device set below includes it either way
			lines = append(lines, fmt.Sprintf("claim %s allocation in flight", c.Name))
			continue
		}
		var devs, cons []string
		if c.Status.Allocation != nil {
			for _, d := range c.Status.Allocation.Devices.Results {
				devs = append(devs, d.Pool+"/"+d.Device)
			}
		}
		for _, rf := range c.Status.ReservedFor {
			cons = append(cons, rf.Name)
		}
		sort.Strings(devs)
		sort.Strings(cons)
		lines = append(lines, fmt.Sprintf("claim %s devices=%v consumers=%v", c.Name, devs, cons))
	}
	sort.Strings(lines)
	if ids, err := mgr.ResourceClaims().ListAllAllocatedDevices(); err == nil {
		var ds []string
		for id := range ids {
			ds = append(ds, id.String())
		}
		sort.Strings(ds)
		lines = append(lines, fmt.Sprintf("allocated devices %v", ds))
	}
	for _, job := range ssn.ClusterInfo.PodGroupInfos {
		for _, t := range job.GetAllPodsMap() {
			if !pod_status.IsActiveUsedStatus(t.Status) || len(t.ResourceClaimInfo) == 0 {
				continue
			}
			var parts []string
			for ref, ci := range t.ResourceClaimInfo {
				var devs []string
				if ci != nil && ci.Allocation != nil {
					for _, d := range ci.Allocation.Devices.Results {
						devs = append(devs, d.Pool+"/"+d.Device)
					}
				}
				sort.Strings(devs)
				parts = append(parts, fmt.Sprintf("%s=%v", ref, devs))
			}
			sort.Strings(parts)
			lines = append(lines, fmt.Sprintf("taskclaims %s %v", t.Name, parts))
		}
	}
	sort.Strings(lines)
	return strings.Join(lines, "\n") + "\n"
}

var claimLine = regexp.MustCompile(`^claim (\S+) devices=\[(.*)\] consumers=\[(.*)\]$`)

// unconsumedClaimOnlyDiff: the dumps differ only in claims that were allocated WITHOUT any consumer before (a legal
// API state between the last consumer's end and the claim controller's deallocation) and are unallocated after, and in
// the device set line that follows from it (signature of the finding "undoing the allocation of a consumer deallocates
// a claim that was allocated before the statement").
func unconsumedClaimOnlyDiff(a, b string) bool {
	la, lb := strings.Split(a, "\n"), strings.Split(b, "\n")
	if len(la) != len(lb) {
		return false
	}
	found := false
	for i := range la {
		if la[i] == lb[i] {
			continue
		}
		if strings.HasPrefix(la[i], "allocated devices ") && strings.HasPrefix(lb[i], "allocated devices ") {
			continue
		}
		ma, mb := claimLine.FindStringSubmatch(la[i]), claimLine.FindStringSubmatch(lb[i])
		if ma == nil || mb == nil || ma[1] != mb[1] {
			return false
		}
		if ma[2] != "" && ma[3] == "" && mb[2] == "" && mb[3] == "" {
			found = true
			continue
		}
		return false
	}
	return found
}

// draTrackerMismatch compares the DRA manager's set of allocated devices (what the structured allocator treats as
// taken) with the devices of the allocated claims in the same manager's claim cache plus the allocations in flight
// (pods that are being bound). lost = held by a claim but not in the set; ghost = in the set but held by no claim.
func draTrackerMismatch(ssn *framework.Session) (lost, ghost, double []string) {
	defer func() { _ = recover() }()
	kp := ssn.InternalK8sPlugins()
	if kp == nil || kp.FrameworkHandle == nil {
		return
	}
	mgr := kp.FrameworkHandle.SharedDRAManager()
	if mgr == nil {
		return
	}
	claims, err := mgr.ResourceClaims().List()
	if err != nil {
		return
	}
	ids, err := mgr.ResourceClaims().ListAllAllocatedDevices()
	if err != nil {
		return
	}
	tracked := map[string]bool{}
	for id := range ids {
		tracked[id.String()] = true
	}
	want := map[string]bool{}
	holders := map[string][]string{}
	for _, c := range claims {
		if c.Status.Allocation != nil {
			for _, d := range c.Status.Allocation.Devices.Results {
				want[d.Driver+"/"+d.Pool+"/"+d.Device] = true
				holders[d.Driver+"/"+d.Pool+"/"+d.Device] = append(holders[d.Driver+"/"+d.Pool+"/"+d.Device], c.Name)
			}
		}
	}
	for d, hs := range holders {
		if len(hs) > 1 {
			sort.Strings(hs)
			double = append(double, fmt.Sprintf("%s held by %v", d, hs))
		}
	}
	sort.Strings(double)
	for _, job := range ssn.ClusterInfo.PodGroupInfos {
		for _, t := range job.GetAllPodsMap() {
			if t.BindRequest == nil || t.BindRequest.BindRequest == nil {
				continue
			}
			for _, ca := range t.BindRequest.BindRequest.Spec.ResourceClaimAllocations {
				if ca.Allocation != nil {
					for _, d := range ca.Allocation.Devices.Results {
						want[d.Driver+"/"+d.Pool+"/"+d.Device] = true
					}
				}
			}
		}
	}
	for d := range want {
		if !tracked[d] {
			lost = append(lost, d)
		}
	}
	for d := range tracked {
		if !want[d] {
			ghost = append(ghost, d)
		}
	}
	sort.Strings(lost)
	sort.Strings(ghost)
	return
}

// draOnlyDiff: the dumps differ only in lines of the DRA view (claims, allocated device set, what tasks remember).
func draOnlyDiff(a, b string) bool {
	isDRA := func(l string) bool {
		return strings.HasPrefix(l, "claim ") || strings.HasPrefix(l, "allocated devices ") || strings.HasPrefix(l, "taskclaims ")
	}
	keep := func(s string) (rest []string, dra []string) {
		for _, l := range strings.Split(s, "\n") {
			if isDRA(l) {
				dra = append(dra, l)
			} else {
				rest = append(rest, l)
			}
		}
		return
	}
	ra, da := keep(a)
	rb, db := keep(b)
	return strings.Join(ra, "\n") == strings.Join(rb, "\n") && strings.Join(da, "\n") != strings.Join(db, "\n")
}

// draViewVsAPI: claims whose allocation in the scheduler's claim cache differs from the API object although no pod
// referencing the claim received a decision (bind, nomination, eviction) in this cycle and no allocation is in flight.
func draViewVsAPI(r *Run, ssn *framework.Session) (out []string) {
	defer func() { _ = recover() }()
	kp := ssn.InternalK8sPlugins()
	if kp == nil || kp.FrameworkHandle == nil {
		return
	}
	mgr := kp.FrameworkHandle.SharedDRAManager()
	if mgr == nil {
		return
	}
	claims, err := mgr.ResourceClaims().List()
	if err != nil {
		return
	}
	touchedPods := map[string]bool{}
	for _, d := range r.Sched.Obs.CycleDecisions(r.cycle) {
		touchedPods[d.Pod] = true
	}
	touched := map[string]bool{}
	for _, p := range r.API.Pods() {
		if touchedPods[p.Name] || p.DeletionTimestamp != nil {
			for _, cn := range podClaimNames(p) {
				touched[cn] = true
			}
		}
	}
	devs := func(a *resourceapi.AllocationResult) string {
		if a == nil {
			return "[]"
		}
		var ds []string
		for _, d := range a.Devices.Results {
			ds = append(ds, d.Pool+"/"+d.Device)
		}
		sort.Strings(ds)
		return fmt.Sprint(ds)
	}
	for _, c := range claims {
		if touched[c.Name] || mgr.ResourceClaims().ClaimHasPendingAllocation(c.UID) {
			continue
		}
		api := r.API.Claim(c.Name)
		if api == nil {
			continue
		}
		if a, b := devs(c.Status.Allocation), devs(api.Status.Allocation); a != b {
			out = append(out, fmt.Sprintf("claim %s: the scheduler believes it holds %s, the API object says %s, and no pod using it was bound, nominated or evicted in this cycle", c.Name, a, b))
		}
	}
	sort.Strings(out)
	return
}

// stripDRA removes the DRA lines (claims, allocated device set, task claim memory) from a dump.
func stripDRA(d string) string {
	var keep []string
	for _, l := range strings.Split(d, "\n") {
		if strings.HasPrefix(l, "claim ") || strings.HasPrefix(l, "allocated devices ") || strings.HasPrefix(l, "taskclaims ") {
			continue
		}
		keep = append(keep, l)
	}
	return strings.Join(keep, "\n")
}
