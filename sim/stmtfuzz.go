package kaisim

// C13: a registered action ("verif-stmtfuzz") drives framework.Statement inside real sessions
// with scripted programs over the public API the solvers use, and compares canonical dumps of the
// session's view before/after Discard and Rollback, and the emitted calls on Commit.

import (
	"fmt"
	"math"
	"regexp"
	"sort"
	"strings"

	"github.com/NVIDIA/KAI-scheduler/pkg/scheduler/actions/common"
	"github.com/NVIDIA/KAI-scheduler/pkg/scheduler/api/eviction_info"
	"github.com/NVIDIA/KAI-scheduler/pkg/scheduler/api/node_info"
	"github.com/NVIDIA/KAI-scheduler/pkg/scheduler/api/pod_info"
	"github.com/NVIDIA/KAI-scheduler/pkg/scheduler/api/pod_status"
	"github.com/NVIDIA/KAI-scheduler/pkg/scheduler/api/podgroup_info"
	"github.com/NVIDIA/KAI-scheduler/pkg/scheduler/api/resource_info"
	"github.com/NVIDIA/KAI-scheduler/pkg/scheduler/framework"
	"github.com/NVIDIA/KAI-scheduler/pkg/scheduler/plugins/proportion"
	rs "github.com/NVIDIA/KAI-scheduler/pkg/scheduler/plugins/proportion/resource_share"
)

type StmtOp struct {
	Kind string `json:"k"` // evict | allocjob | unevict | checkpoint | rollback | convert | end
	A    int    `json:"a,omitempty"`
	B    int    `json:"b,omitempty"`
}

type stmtFuzzAction struct{}

func (stmtFuzzAction) Name() framework.ActionType { return "verif-stmtfuzz" }

func (stmtFuzzAction) Execute(ssn *framework.Session) {
	curMu.Lock()
	h := curHooks
	curMu.Unlock()
	if r, ok := h.(*Run); ok && r != nil {
		r.stmtFuzz(ssn)
	}
}

// DumpSession: canonical dump of what C13 calls "the scheduler's view".
func DumpSession(ssn *framework.Session) string {
	var b strings.Builder
	names := make([]string, 0, len(ssn.ClusterInfo.Nodes))
	for n := range ssn.ClusterInfo.Nodes {
		names = append(names, n)
	}
	sort.Strings(names)
	normI := func(m map[string]int64) string {
		var ks []string
		for k, v := range m {
			if v != 0 {
				ks = append(ks, fmt.Sprintf("%s=%d", k, v))
			}
		}
		sort.Strings(ks)
		return strings.Join(ks, ",")
	}
	for _, n := range names {
		ni := ssn.ClusterInfo.Nodes[n]
		fmt.Fprintf(&b, "node %s idle=%s used=%s rel=%s\n", n, fmtRes(ni.Idle), fmtRes(ni.Used), fmtRes(ni.Releasing))
		var rg []string
		for g, v := range ni.ReleasingSharedGPUs {
			if v {
				rg = append(rg, g)
			}
		}
		sort.Strings(rg)
		fmt.Fprintf(&b, "  gpu used[%s] alloc[%s] rel[%s] relmark%v\n", normI(ni.UsedSharedGPUsMemory), normI(ni.AllocatedSharedGPUsMemory), normI(ni.ReleasingSharedGPUsMemory), rg)
		for _, p := range sortedPodInfos(ni.PodInfos) {
			groups := ""
			if pod_status.IsActiveUsedStatus(p.Status) {
				groups = fmt.Sprint(p.GPUGroups)
			}
			fmt.Fprintf(&b, "  pod %s %v %s\n", p.Name, statusClass(p.Status), groups)
		}
	}
	jobs := make([]string, 0, len(ssn.ClusterInfo.PodGroupInfos))
	for j := range ssn.ClusterInfo.PodGroupInfos {
		jobs = append(jobs, string(j))
	}
	sort.Strings(jobs)
	for _, jn := range jobs {
		job := ssn.ClusterInfo.PodGroupInfos[podGroupID(jn)]
		fmt.Fprintf(&b, "job %s allocated=%s active=%d\n", jn, fmtRes(job.Allocated), job.GetActiveAllocatedTasksCount())
		for _, t := range sortedPodInfos(job.GetAllPodsMap()) {
			groups := ""
			if pod_status.IsActiveUsedStatus(t.Status) {
				groups = fmt.Sprint(t.GPUGroups)
			}
			virt := t.IsVirtualStatus && t.Status != pod_status.Pending // the flag of a Pending task has no reader outside CSI storage scheduling
			fmt.Fprintf(&b, "  task %s %v node=%s virt=%v %s\n", t.Name, t.Status, t.NodeName, virt, groups)
		}
		for _, sn := range sortedKeys(job.PodSets) {
			ps := job.PodSets[sn]
			fmt.Fprintf(&b, "  set %s %d/%d/%d\n", sn, ps.GetNumActiveAllocatedTasks(), ps.GetNumActiveUsedTasks(), ps.GetNumAliveTasks())
		}
	}
	if attrs, _ := proportion.QueueAttributesForSim(ssn.PluginForSim("proportion")); attrs != nil {
		var qs []string
		for q := range attrs {
			qs = append(qs, string(q))
		}
		sort.Strings(qs)
		for _, q := range qs {
			qa := attrs[queueID(q)]
			for _, res := range rs.AllResources {
				sh := qa.ResourceShare(res)
				nz := func(x float64) float64 {
					x = math.Round(x*1e6) / 1e6
					if x == 0 {
						return 0
					}
					return x
				}
				fmt.Fprintf(&b, "queue %s %s alloc=%v np=%v\n", q, res, nz(sh.Allocated), nz(sh.AllocatedNotPreemptible))
			}
		}
	}
	return b.String()
}

var gpusField = regexp.MustCompile(`Gpus: [^ ,]+`)

var _ = math.Abs

// gpuCounterOnlyDiff: the dumps differ only in whole-GPU idle/releasing counters of nodes
// (signature of the shared-GPU counter known finding).
func gpuCounterOnlyDiff(a, b string) bool {
	la, lb := strings.Split(a, "\n"), strings.Split(b, "\n")
	if len(la) != len(lb) {
		return false
	}
	diff := false
	for i := range la {
		if la[i] == lb[i] {
			continue
		}
		if !strings.HasPrefix(la[i], "node ") || gpusField.ReplaceAllString(la[i], "Gpus: X") != gpusField.ReplaceAllString(lb[i], "Gpus: X") {
			return false
		}
		diff = true
	}
	return diff
}

func fmtRes(r *resource_info.Resource) string {
	z := func(x float64) float64 {
		x = math.Round(x*1e6) / 1e6
		if x == 0 {
			return 0
		}
		return x
	}
	var sc []string
	for k, v := range r.ScalarResources() {
		if v != 0 {
			sc = append(sc, fmt.Sprintf("%s=%d", k, v))
		}
	}
	sort.Strings(sc)
	return fmt.Sprintf("CPU: %v memory: %v Gpus: %v scalars: %v", z(r.Cpu()), z(r.Memory()), z(r.GPUs()), sc)
}

func firstDiff(a, b string) string {
	la, lb := strings.Split(a, "\n"), strings.Split(b, "\n")
	for i := 0; i < len(la) && i < len(lb); i++ {
		if la[i] != lb[i] {
			return fmt.Sprintf("expected %q, got %q", la[i], lb[i])
		}
	}
	if len(la) != len(lb) {
		return fmt.Sprintf("dump length %d vs %d", len(la), len(lb))
	}
	return ""
}

func (r *Run) stmtFuzz(ssn *framework.Session) {
	prog := r.S.StmtProgram
	if len(prog) == 0 {
		return
	}
	nodes := make([]*node_info.NodeInfo, 0, len(ssn.ClusterInfo.Nodes))
	for _, n := range ssn.ClusterInfo.Nodes {
		nodes = append(nodes, n)
	}
	sort.Slice(nodes, func(i, j int) bool { return nodes[i].Name < nodes[j].Name })
	pc := 0
	for pc < len(prog) {
		stmt := ssn.Statement()
		start := DumpSession(ssn)
		type cpRec struct {
			cp   framework.Checkpoint
			dump string
		}
		var cps []cpRec
		evicted := []*pod_info.PodInfo{}
		touched := map[string]bool{}
		unevictedOnce := map[string]bool{} // pods evicted and un-evicted again within the current statement
		tainted := "" // known-finding signature seen inside this statement
		nOps := 0
		converted := false
		decBefore := len(r.Sched.Obs.Decisions)
		for ; pc < len(prog); pc++ {
			op := prog[pc]
			if op.Kind == "end" {
				break
			}
			nOps++
			switch op.Kind {
			case "evict":
				var cands []*pod_info.PodInfo
				for _, job := range ssn.ClusterInfo.PodGroupInfos {
					for _, t := range job.GetAllPodsMap() {
						// well-formed victims: really allocated (not only nominated), not already evicted
						if pod_status.AllocatedStatus(t.Status) && t.Status != pod_status.Allocated && t.NodeName != "" {
							cands = append(cands, t)
						}
					}
				}
				if len(cands) == 0 {
					continue
				}
				sort.Slice(cands, func(i, j int) bool { return cands[i].Name < cands[j].Name })
				t := cands[op.A%len(cands)]
				// B odd: prefer a pod this statement has already evicted and un-evicted (evict / un-evict / evict again)
				if op.B%2 == 1 {
					for _, c := range cands {
						if unevictedOnce[c.Name] {
							t = c
							r.Probe("c13_op_re_evict")
							break
						}
					}
				}
				if err := stmt.Evict(t, "fuzz", eviction_info.EvictionMetadata{Action: "reclaim", EvictionGangSize: 1}); err == nil {
					evicted = append(evicted, t)
					touched[t.Name] = true
					r.Probe("c13_op_evict")
				}
			case "reevict": // evict, un-evict, evict again (and, B odd, un-evict again) the same running pod in one statement
				var cands []*pod_info.PodInfo
				for _, job := range ssn.ClusterInfo.PodGroupInfos {
					for _, t := range job.GetAllPodsMap() {
						if pod_status.AllocatedStatus(t.Status) && t.Status != pod_status.Allocated && t.NodeName != "" {
							cands = append(cands, t)
						}
					}
				}
				if len(cands) == 0 {
					continue
				}
				sort.Slice(cands, func(i, j int) bool { return cands[i].Name < cands[j].Name })
				t := cands[op.A%len(cands)]
				md := eviction_info.EvictionMetadata{Action: "reclaim", EvictionGangSize: 1}
				if stmt.Evict(t, "fuzz", md) != nil {
					continue
				}
				touched[t.Name] = true
				if !(t.Status == pod_status.Releasing && t.IsVirtualStatus) || stmt.Unevict(t) != nil {
					evicted = append(evicted, t)
					continue
				}
				if stmt.Evict(t, "fuzz", md) != nil {
					continue
				}
				r.Probe("c13_op_re_evict")
				if op.B%2 == 1 && t.Status == pod_status.Releasing && t.IsVirtualStatus && stmt.Unevict(t) == nil {
					r.Probe("c13_op_re_unevict")
					continue
				}
				evicted = append(evicted, t)
			case "unevict":
				if len(evicted) == 0 {
					continue
				}
				i := op.A % len(evicted)
				t := evicted[i]
				if t.Status == pod_status.Releasing && t.IsVirtualStatus {
					if err := stmt.Unevict(t); err == nil {
						r.Probe("c13_op_unevict")
						unevictedOnce[t.Name] = true
					}
				}
				evicted = append(evicted[:i], evicted[i+1:]...)
			case "allocjob":
				var cands []*podgroup_info.PodGroupInfo
				for _, job := range ssn.ClusterInfo.PodGroupInfos {
					if len(job.PodStatusIndex[pod_status.Pending]) > 0 && job.IsReadyForScheduling() {
						if _, ok := ssn.ClusterInfo.Queues[job.Queue]; ok {
							cands = append(cands, job)
						}
					}
				}
				if len(cands) == 0 {
					continue
				}
				sort.Slice(cands, func(i, j int) bool { return cands[i].Name < cands[j].Name })
				job := cands[op.A%len(cands)]
				before := len(r.allocEvents)
				ok := common.AllocateJob(ssn, stmt, nodes, job, op.B%2 == 1)
				for _, n := range r.allocEvents[before:] {
					touched[n] = true
				}
				if ok {
					r.Probe("c13_op_allocjob_ok")
				} else {
					r.Probe("c13_op_allocjob_failed")
				}
			case "checkpoint":
				cps = append(cps, cpRec{stmt.Checkpoint(), DumpSession(ssn)})
				r.Probe("c13_op_checkpoint")
			case "rollback":
				if len(cps) == 0 {
					continue
				}
				i := op.A % len(cps)
				if err := stmt.Rollback(cps[i].cp); err != nil {
					r.Fail("C13", "rollback_error", "Rollback to a checkpoint of the same statement failed: %v", err)
				}
				r.Probe("c13_op_rollback")
				if now := DumpSession(ssn); firstDiff(cps[i].dump, now) != "" {
					d := firstDiff(cps[i].dump, now)
					rule := "rollback_not_restoring"
					if s := r.c13Signature(); s != "" {
						rule += s
					} else if gpuCounterOnlyDiff(cps[i].dump, now) {
						rule += "_shared_gpu_counters"
					}
					r.Fail("C13", rule, "after Rollback to checkpoint %d (statement program %v): %s", i, prog, d)
				}
				cps = cps[:i+1]
				evicted = nil
				unevictedOnce = map[string]bool{}
			case "convert":
				var js []string
				for _, job := range ssn.ClusterInfo.PodGroupInfos {
					if len(job.PodStatusIndex[pod_status.Allocated]) > 0 {
						js = append(js, string(job.UID))
					}
				}
				if len(js) == 0 {
					continue
				}
				sort.Strings(js)
				if err := stmt.ConvertAllAllocatedToPipelined(podGroupID(js[op.A%len(js)])); err == nil {
					r.Probe("c13_op_convert")
				}
				// the conversion rewrites the statement's operation list: earlier checkpoints are no
				// longer meaningful (actions never roll back across it) and the statement is committed
				cps = nil
				converted = true
			}
		}
		endOp := StmtOp{Kind: "end"}
		if pc < len(prog) {
			endOp = prog[pc]
			pc++
		}
		_ = tainted
		if nOps == 0 {
			continue
		}
		if endOp.B%3 != 0 && !converted { // discard twice as often as commit
			stmt.Discard()
			r.Probe("c13_discard")
			if now := DumpSession(ssn); firstDiff(start, now) != "" {
				d := firstDiff(start, now)
				rule := "discard_not_restoring"
				if s := r.c13Signature(); s != "" {
					rule += s
				} else if gpuCounterOnlyDiff(start, now) {
					rule += "_shared_gpu_counters"
				}
				r.Fail("C13", rule, "after Discard (statement program %v): %s", prog, d)
			}
			if n := len(r.Sched.Obs.Decisions) - decBefore; n != 0 {
				r.Fail("C13", "discard_emitted_calls", "a discarded statement emitted %d Bind/Evict/TaskPipelined calls", n)
			}
		} else {
			_ = stmt.Commit()
			r.Probe("c13_commit")
			seen := map[string]int{}
			for _, d := range r.Sched.Obs.Decisions[decBefore:] {
				seen[d.Kind+" "+d.Pod]++
				if !touched[d.Pod] {
					r.Fail("C13", "commit_untouched_pod", "Commit emitted %s for pod %s which no step of the statement touched", d.Kind, d.Pod)
				}
			}
			for k, n := range seen {
				if n > 1 {
					r.Fail("C13", "commit_duplicate_call", "Commit emitted %q %d times", k, n)
				}
			}
		}
	}
}

// c13Signature: known-finding signatures (see oracle_accounting.go) observed in this session.
func (r *Run) c13Signature() string {
	for _, o := range r.oracle {
		if a, ok := o.(*AccountingOracle); ok {
			switch {
			case a.pipelinedVictim:
				return "_after_pipelined_victim"
			case a.gpuMove:
				return "_after_fraction_gpu_move"
			case a.doubleEvict:
				return "_after_double_evict"
			}
		}
	}
	return ""
}
