package kaisim

// One simulated run = pure function of a Script: world + config + ops + faults.

import (
	"context"
	"encoding/json"
	"fmt"
	mrand "math/rand"
	"os"
	"runtime"
	"runtime/debug"
	"sort"
	"strconv"
	"strings"
	"testing"
	"testing/synctest"
	"time"
	_ "unsafe"

	"github.com/google/uuid"
	corev1 "k8s.io/api/core/v1"
	metav1 "k8s.io/apimachinery/pkg/apis/meta/v1"
	"k8s.io/apimachinery/pkg/types"
	utilrand "k8s.io/apimachinery/pkg/util/rand"

	bindv1alpha2 "github.com/NVIDIA/KAI-scheduler/pkg/apis/scheduling/v1alpha2"
	"github.com/NVIDIA/KAI-scheduler/pkg/scheduler/framework"
)

//go:linkname verifMapRand internal/runtime/maps.VerifMapRand
var verifMapRand uint64

type Op struct {
	Kind string `json:"kind"` // cycle | binder | kubelet | complete | delete | advance | recreate | submit | ...
	Arg  string `json:"arg,omitempty"`
	N    int    `json:"n,omitempty"`
}

type Fault struct {
	Actor    string `json:"actor"`
	Verb     string `json:"verb"`
	Resource string `json:"res"`
	Name     string `json:"name,omitempty"` // "" = any object
	Nth      int    `json:"nth"`            // n-th call with this key (per object); -1 = every call
	Kind     string `json:"kind"`           // error | conflict | notfound | timeout | throttle | after:<kind>
}

type Script struct {
	Prop    string      `json:"prop"`
	Profile string      `json:"profile"`
	MapSeed uint64      `json:"map_seed"`
	Config  SchedConfig `json:"config"`
	World   World       `json:"world"`
	Ops     []Op        `json:"ops"`
	Faults  []Fault     `json:"faults,omitempty"`
	// BindFail: pods whose bind the (stub) binder fails, value = how many times
	BindFail map[string]int `json:"bind_fail,omitempty"`
	// StmtProgram drives the verif-stmtfuzz action (C13)
	StmtProgram []StmtOp `json:"stmt_program,omitempty"`
	// C17: binder-only simulation (replaces world/ops)
	C17 *C17Script `json:"c17,omitempty"`
	C20 *C20Script `json:"c20,omitempty"`
	C18 *C18Script `json:"c18,omitempty"`
	C20Op *C20OpScript `json:"c20op,omitempty"`
}

func (s *Script) JSON() string {
	b, _ := json.MarshalIndent(s, "", " ")
	return string(b)
}

type Violation struct {
	Prop   string `json:"prop"`
	Rule   string `json:"rule"`
	Detail string `json:"detail"`
	Cycle  int    `json:"cycle"`
}

func (v Violation) Class() string { return v.Prop + "/" + v.Rule }

type Result struct {
	Violations []Violation    `json:"violations"`
	Probes     map[string]int `json:"probes"`
	Faults     map[string]int `json:"faults_fired"`
	Cycles     int            `json:"cycles"`
	SimSeconds float64        `json:"sim_seconds"`
	Decisions  []Decision     `json:"decisions,omitempty"`
	History    []Call         `json:"history,omitempty"`
	StateHash  string         `json:"state_hash"`
	Panic      string         `json:"panic,omitempty"`
	NonTrivial bool           `json:"non_trivial"`
}

// Run holds the state of one simulated execution and implements SessionHooks.
type Run struct {
	S      *Script
	API    *SimAPI
	Sched  *SchedActor
	Res    *Result
	cycle  int
	fired  map[string]int
	oracle []Oracle
	Pre    *CycleState // API state captured at the start of the current cycle
	allocEvents []string // task names of allocate events (used by the statement fuzzer)
	Binder      *BinderActor
	brFailed    map[string]int
	brAttempts  map[string]int
	draDouble   bool // the scheduler's claim cache held one device under two claims at some point of this run
	crashAt, schedCalls, schedEpoch int // scheduler crash after the crashAt-th mutating call of the current cycle
	draInconsistent bool // claim cache and allocated-device set of the scheduler disagreed at some point of this run
}

type Oracle interface {
	Prop() string
	SessionOpen(r *Run, ssn *framework.Session)
	BeforeAction(r *Run, name string, ssn *framework.Session)
	AfterAction(r *Run, name string, ssn *framework.Session)
	Event(r *Run, ssn *framework.Session, ev *framework.Event, alloc bool)
	SessionClose(r *Run, ssn *framework.Session)
	AfterCycle(r *Run, cycle int, decisions []Decision)
	AfterOp(r *Run, op Op)
	Finish(r *Run)
}

// BaseOracle: no-op defaults.
type BaseOracle struct{}

func (BaseOracle) SessionOpen(*Run, *framework.Session)                   {}
func (BaseOracle) BeforeAction(*Run, string, *framework.Session)          {}
func (BaseOracle) AfterAction(*Run, string, *framework.Session)           {}
func (BaseOracle) Event(*Run, *framework.Session, *framework.Event, bool) {}
func (BaseOracle) SessionClose(*Run, *framework.Session)                  {}
func (BaseOracle) AfterCycle(*Run, int, []Decision)                       {}
func (BaseOracle) AfterOp(*Run, Op)                                       {}
func (BaseOracle) Finish(*Run)                                            {}

func (r *Run) Fail(prop, rule, format string, args ...any) {
	if len(r.Res.Violations) > 50 {
		return
	}
	r.Res.Violations = append(r.Res.Violations, Violation{Prop: prop, Rule: rule, Detail: fmt.Sprintf(format, args...), Cycle: r.cycle})
}

func (r *Run) Probe(name string) { r.Res.Probes[name]++ }

// SessionHooks
func (r *Run) OnSessionOpen(ssn *framework.Session) {
	for _, o := range r.oracle {
		o.SessionOpen(r, ssn)
	}
}
func (r *Run) BeforeAction(name string, ssn *framework.Session) {
	for _, o := range r.oracle {
		o.BeforeAction(r, name, ssn)
	}
}
func (r *Run) AfterAction(name string, ssn *framework.Session) {
	for _, o := range r.oracle {
		o.AfterAction(r, name, ssn)
	}
}
func (r *Run) OnAllocate(ssn *framework.Session, ev *framework.Event) {
	r.allocEvents = append(r.allocEvents, ev.Task.Name)
	for _, o := range r.oracle {
		o.Event(r, ssn, ev, true)
	}
}
func (r *Run) OnDeallocate(ssn *framework.Session, ev *framework.Event) {
	for _, o := range r.oracle {
		o.Event(r, ssn, ev, false)
	}
}
func (r *Run) OnSessionClose(ssn *framework.Session) {
	for _, o := range r.oracle {
		o.SessionClose(r, ssn)
	}
}

func (r *Run) decide(c *Call, nth int) string {
	if c.Resource == "events" {
		return ""
	}
	if r.crashAt > 0 && c.Actor == "scheduler" {
		// the scheduler process dies after its crashAt-th mutating API call of this cycle: nothing it tries later has an effect
		r.API.mu.Lock()
		r.schedCalls++
		n := r.schedCalls
		r.API.mu.Unlock()
		if n > r.crashAt {
			r.API.mu.Lock()
			r.fired["scheduler crash mid-cycle (calls lost)"]++
			r.API.mu.Unlock()
			return "swallow"
		}
	}
	for i := range r.S.Faults {
		f := &r.S.Faults[i]
		if f.Actor != c.Actor || f.Verb != c.Verb || f.Resource != c.Resource {
			continue
		}
		if f.Name != "" && f.Name != c.Name {
			continue
		}
		if f.Nth >= 0 && f.Nth != nth {
			continue
		}
		r.API.mu.Lock()
		r.fired[f.Kind+" "+f.Verb+" "+f.Resource]++
		r.API.mu.Unlock()
		return f.Kind
	}
	return ""
}

// RunScript executes the script inside a synctest bubble and returns the result.
func RunScript(t *testing.T, s *Script, oracles []Oracle, keepTrace bool) (res *Result) {
	res = &Result{Probes: map[string]int{}, Faults: map[string]int{}}
	verifMapRand = s.MapSeed
	defer func() { verifMapRand = 0 }()
	rng := mrand.New(mrand.NewSource(int64(s.MapSeed) ^ 0x5eed))
	uuid.SetRand(rng)
	utilrand.Seed(int64(s.MapSeed) + 17)
	done := make(chan struct{})
	defer close(done)
	go func() { // real-time watchdog, outside the bubble
		select {
		case <-done:
		case <-time.After(time.Duration(envIntRun("KAISIM_WATCHDOG_S", 120)) * time.Second):
			b, _ := json.MarshalIndent(map[string]any{"property": s.Prop, "class": "INFRA/watchdog", "detail": "run did not finish in real time", "script": s}, "", " ")
			_ = os.WriteFile(fmt.Sprintf("%s/hang-%s-%d.json", os.Getenv("KAISIM_REPLAY_DIR"), s.Prop, os.Getpid()), b, 0o644)
			buf := make([]byte, 1<<20)
			n := runtime.Stack(buf, true)
			_ = os.WriteFile(fmt.Sprintf("%s/hang-%s-%d.stacks", os.Getenv("KAISIM_REPLAY_DIR"), s.Prop, os.Getpid()), buf[:n], 0o644)
			fmt.Println("WATCHDOG: run hung; script and stacks written")
			os.Exit(3)
		}
	}()
	if s.C17 != nil {
		return runC17(t, s.C17)
	}
	if s.C20 != nil {
		return runC20(t, s.C20)
	}
	if s.C18 != nil {
		return runC18(t, s.C18)
	}
	if s.C20Op != nil {
		return runC20Op(t, s.C20Op)
	}
	func() {
		defer func() {
			if p := recover(); p != nil {
				msg := fmt.Sprint(p)
				if !strings.Contains(msg, "deadlock: main bubble goroutine has exited") {
					res.Panic = msg
				}
			}
		}()
		synctest.Test(t, func(t *testing.T) {
			defer func() {
				if p := recover(); p != nil {
					res.Panic = fmt.Sprintf("%v\n%s", p, debug.Stack())
				}
			}()
			r := &Run{S: s, Res: res, fired: res.Faults, oracle: oracles}
			r.run(keepTrace)
		})
	}()
	uuid.SetRand(nil)
	return res
}

func (r *Run) run(keepTrace bool) {
	s := r.S
	r.API = NewSimAPI(s.World.Objects())
	r.API.Decide = r.decide
	r.Sched = NewSchedActor(r.API, s.Config, r)
	synctest.Wait()
	start := time.Now()
	r.afterOp(Op{Kind: "init"})
	for _, op := range s.Ops {
		r.apply(op)
		synctest.Wait()
		r.API.Flush()
		if bl := r.API.Backlogs(); len(bl) > 0 {
			r.Fail("INFRA", "watch_backlog", "after op %v at %s: %v", op, time.Now().Format(time.RFC3339), bl)
		}
		r.afterOp(op)
		if r.Sched.Panic != "" {
			break
		}
	}
	for _, o := range r.oracle {
		o.Finish(r)
	}
	r.Res.Cycles = r.cycle
	r.Res.SimSeconds = time.Since(start).Seconds()
	r.Res.StateHash = r.stateHash()
	if keepTrace {
		r.Res.Decisions = append([]Decision(nil), r.Sched.Obs.Decisions...)
		r.Res.History = r.API.History()
	}
	for _, d := range r.Sched.Obs.Decisions {
		if d.Err == "" {
			r.Res.NonTrivial = true
		}
	}
	r.Sched.Stop()
	synctest.Wait()
}

func (r *Run) afterOp(op Op) {
	for _, o := range r.oracle {
		o.AfterOp(r, op)
	}
}

func (r *Run) apply(op Op) {
	switch op.Kind {
	case "cycle":
		r.crashAt, r.schedCalls = 0, 0
		if strings.HasPrefix(op.Arg, "crash:") {
			fmt.Sscanf(op.Arg, "crash:%d", &r.crashAt)
		}
		defer func() {
			if r.crashAt > 0 {
				r.restartScheduler()
			}
			r.crashAt = 0
		}()
		r.cycle++
		r.Sched.Obs.mu.Lock()
		r.Sched.Obs.evictCalls, r.Sched.Obs.beforeEvict = 0, nil
		if strings.HasPrefix(op.Arg, "midevict:") {
			// "midevict:<n>:<complete|delete>": the victim of the n-th eviction of this cycle finishes (or is deleted by its
			// user) after the snapshot was taken and before the scheduler evicts it
			var n int
			var kind string
			if _, err := fmt.Sscanf(strings.ReplaceAll(op.Arg, ":", " "), "midevict %d %s", &n, &kind); err == nil && n > 0 {
				r.Sched.Obs.beforeEvict = func(i int, pod *corev1.Pod) {
					if i != n {
						return
					}
					cur := r.API.Pod(pod.Namespace, pod.Name)
					if cur == nil || cur.DeletionTimestamp != nil {
						return
					}
					if kind == "delete" {
						r.API.RemovePod(cur.Namespace, cur.Name)
					} else {
						cur = cur.DeepCopy()
						cur.Status.Phase = corev1.PodSucceeded
						r.API.UpdatePod(cur)
					}
					r.Probe("victim_gone_between_snapshot_and_eviction")
					synctest.Wait() // the scheduler's informers see the change before the eviction is issued
				}
			}
		}
		r.Sched.Obs.mu.Unlock()
		r.API.mu.Lock()
		r.API.Cycle = r.cycle
		r.API.mu.Unlock()
		r.Pre = CaptureState(r.API)
		panicked := r.Sched.RunCycle(r.cycle)
		synctest.Wait()
		r.API.Flush()
		if panicked {
			site := panicSite(r.Sched.PanicStack)
			top := strings.SplitN(site, " ", 2)[0]
			if i := strings.LastIndex(top, "/"); i >= 0 {
				top = top[i+1:]
			}
			r.Fail("C10", "panic@"+top, "scheduling cycle panicked: %s\n%s", r.Sched.Panic, site)
			return
		}
		ds := r.Sched.Obs.CycleDecisions(r.cycle)
		for _, o := range r.oracle {
			o.AfterCycle(r, r.cycle, ds)
		}
	case "binder":
		r.stubBinder()
	case "rbinder":
		r.realBinder(op)
	case "delete_node":
		_ = r.API.Tracker.Delete(NodeGVR, "", op.Arg)
		r.Probe("node_deleted")
	case "set_quota": // an administrator edits a queue's deserved GPU quota between cycles
		for _, q := range r.API.Queues() {
			if q.Name == op.Arg && q.Spec.Resources != nil {
				q = q.DeepCopy()
				q.Spec.Resources.GPU.Quota = float64(op.N)
				_ = r.API.Tracker.Update(QueueGVR, q, "")
				r.Probe("queue_quota_edited")
			}
		}
	case "set_backoff":
		for _, br := range r.API.BindRequests() {
			if br.Spec.BackoffLimit == nil && br.Status.Phase != bindv1alpha2.BindRequestPhaseSucceeded {
				br = br.DeepCopy()
				l := int32(op.N)
				br.Spec.BackoffLimit = &l
				_ = r.API.Tracker.Update(BRGVR, br, br.Namespace)
				r.Probe("backoff_limit_set")
			}
		}
	case "kubelet":
		r.kubelet(op.Arg)
	case "complete":
		if p := r.API.Pod(NS, op.Arg); p != nil && p.Status.Phase == corev1.PodRunning && p.DeletionTimestamp == nil {
			p = p.DeepCopy()
			p.Status.Phase = corev1.PodSucceeded
			r.API.UpdatePod(p)
		}
	case "delete":
		if p := r.API.Pod(NS, op.Arg); p != nil {
			cl := r.API.ClientsFor("user")
			_ = cl.Kube.CoreV1().Pods(NS).Delete(context.Background(), op.Arg, metav1.DeleteOptions{})
		}
	case "advance":
		time.Sleep(time.Duration(op.N) * time.Second)
	case "recreate":
		r.recreate()
	case "inject":
		r.inject(op.Arg, op.N)
	default:
		panic("unknown op " + op.Kind)
	}
}

// stubBinder: the "instant binder" environment. For every live, unprocessed BindRequest it either
// binds the pod exactly as requested (node, GPU groups, reservation pods) or fails the request,
// as the script says.
func (r *Run) stubBinder() {
	for _, br := range r.API.BindRequests() {
		if br.Status.Phase == bindv1alpha2.BindRequestPhaseSucceeded || BRTerminallyFailed(br) {
			continue
		}
		pod := r.API.Pod(br.Namespace, br.Spec.PodName)
		if pod == nil || pod.Spec.NodeName != "" || pod.DeletionTimestamp != nil {
			continue
		}
		br = br.DeepCopy()
		if r.S.BindFail[pod.Name] > int(br.Status.FailedAttempts) {
			br.Status.Phase = bindv1alpha2.BindRequestPhaseFailed
			br.Status.FailedAttempts++
			br.Status.Reason = "simulated bind failure"
			must(r.API.Tracker.Update(BRGVR, br, br.Namespace))
			r.Probe("stub_bind_failed")
			continue
		}
		pod = pod.DeepCopy()
		pod.Spec.NodeName = br.Spec.SelectedNode
		if pod.Labels == nil {
			pod.Labels = map[string]string{}
		}
		if pod.Annotations == nil {
			pod.Annotations = map[string]string{}
		}
		pod.Annotations["received-resource-type"] = br.Spec.ReceivedResourceType
		d := PodDemand(pod)
		for _, g := range br.Spec.SelectedGPUGroups {
			if d.Devices > 1 || pod.Annotations["gpu-fraction-num-devices"] != "" {
				pod.Labels[GPUGroupPrefix+g] = g
			} else {
				pod.Labels[GPUGroupLabel] = g
			}
			r.ensureReservationPod(br.Spec.SelectedNode, g)
		}
		pod.Status.Conditions = append(pod.Status.Conditions, corev1.PodCondition{Type: corev1.PodScheduled, Status: corev1.ConditionTrue})
		r.API.UpdatePod(pod)
		r.applyClaimAllocations(br, pod)
		br.Status.Phase = bindv1alpha2.BindRequestPhaseSucceeded
		must(r.API.Tracker.Update(BRGVR, br, br.Namespace))
		r.Probe("stub_bound")
	}
}

func (r *Run) ensureReservationPod(node, group string) {
	used := map[string]bool{}
	for _, p := range r.API.Pods() {
		if IsReservationPod(p) && p.Spec.NodeName == node {
			if p.Labels[GPUGroupLabel] == group {
				return
			}
			used[p.Annotations[GPUIndexAnnot]] = true
		}
	}
	idx := 0
	for used[fmt.Sprint(idx)] {
		idx++
	}
	rp := BuildReservationPod(node, group, idx)
	rp.CreationTimestamp = metav1.NewTime(time.Now())
	must(r.API.Tracker.Add(rp))
}

// kubelet: finishes graceful deletions, starts bound pods, and garbage-collects reservation
// pods of groups without live sharers (what the binder's pod controller does on pod events).
func (r *Run) kubelet(only string) {
	for _, p := range r.API.Pods() {
		if only != "" && p.Name != only {
			continue
		}
		if IsReservationPod(p) {
			continue
		}
		if p.DeletionTimestamp != nil {
			r.API.RemovePod(p.Namespace, p.Name)
			r.Probe("kubelet_removed")
			continue
		}
		if p.Spec.NodeName != "" && p.Status.Phase == corev1.PodPending {
			p = p.DeepCopy()
			p.Status.Phase = corev1.PodRunning
			r.API.UpdatePod(p)
		}
	}
	r.syncReservations()
	if r.S.World.HasDRA() {
		r.claimController()
	}
}

func (r *Run) syncReservations() {
	live := map[string]bool{}
	for _, p := range r.API.Pods() {
		if IsReservationPod(p) || podTerminated(p) {
			continue
		}
		for _, g := range PodGroups(p) {
			live[g] = true
		}
	}
	for _, br := range r.API.BindRequests() {
		// a request still to be processed keeps its groups alive; a processed one does not (the
		// pod's own labels do)
		if BRTerminallyFailed(br) || br.Status.Phase == bindv1alpha2.BindRequestPhaseSucceeded {
			continue
		}
		for _, g := range br.Spec.SelectedGPUGroups {
			live[g] = true
		}
	}
	for _, p := range r.API.Pods() {
		if IsReservationPod(p) && !live[p.Labels[GPUGroupLabel]] {
			r.API.RemovePod(p.Namespace, p.Name)
		}
	}
}

// recreate: workload-controller actor; every pod of the original world that no longer exists is
// recreated as a fresh pending pod (new UID, same name and template).
func (r *Run) recreate() {
	gen := r.Res.Probes["recreated"]
	for i := range r.S.World.Workloads {
		w := &r.S.World.Workloads[i]
		for _, ps := range w.Pods {
			if ps.OtherSched {
				continue
			}
			if r.API.Pod(NS, ps.Name) != nil {
				continue
			}
			ps.State, ps.Node, ps.GPUGroups = "pending", "", nil
			pod := BuildPod(w, ps)
			gen++
			pod.UID = types.UID(fmt.Sprintf("pod-%s-r%d", ps.Name, gen))
			pod.CreationTimestamp = metav1.NewTime(time.Now())
			must(r.API.Tracker.Add(pod))
			r.Probe("recreated")
		}
	}
}

func (r *Run) stateHash() string {
	var parts []string
	for _, p := range r.API.Pods() {
		parts = append(parts, fmt.Sprintf("%s:%s:%s:%v:%v", p.Name, p.Spec.NodeName, p.Status.Phase, p.DeletionTimestamp != nil, PodGroups(p)))
	}
	for _, br := range r.API.BindRequests() {
		parts = append(parts, fmt.Sprintf("br:%s:%s:%s:%v", br.Name, br.Spec.SelectedNode, br.Status.Phase, br.Spec.SelectedGPUGroups))
	}
	sort.Strings(parts)
	for _, d := range r.Sched.Obs.Decisions {
		parts = append(parts, fmt.Sprintf("d:%d:%s:%s:%s:%s:%v", d.Cycle, d.Action, d.Kind, d.Pod, d.Node, d.GPUGroups))
	}
	if os.Getenv("KAISIM_DET_DUMP") != "" {
		r.Res.Probes["zz_state_parts:"+strings.Join(parts, "|")] = 1
	}
	return hashStrings(parts)
}

func envIntRun(name string, def int) int {
	if v := os.Getenv(name); v != "" {
		if n, err := strconv.Atoi(v); err == nil {
			return n
		}
	}
	return def
}

// panicSite extracts the /repo frames of a panic stack (the signature of a crash).
func panicSite(stack string) string {
	var out []string
	lines := strings.Split(stack, "\n")
	seenPanic := false
	for i := 0; i+1 < len(lines); i++ {
		if strings.HasPrefix(lines[i], "panic(") {
			seenPanic = true
			continue
		}
		if seenPanic && strings.Contains(lines[i+1], "/repo/") && !strings.HasPrefix(lines[i], "\t") {
			fn := lines[i]
			if k := strings.LastIndex(fn, "("); k > 0 {
				fn = fn[:k]
			}
			loc := strings.TrimSpace(lines[i+1])
			if k := strings.Index(loc, " +0x"); k > 0 {
				loc = loc[:k]
			}
			out = append(out, fn+" "+loc)
			if len(out) >= 6 {
				break
			}
		}
	}
	return strings.Join(out, " <- ")
}

func goid() int64 {
	var buf [64]byte
	n := runtime.Stack(buf[:], false)
	// "goroutine 123 [running]:"
	f := strings.Fields(string(buf[:n]))
	if len(f) < 2 {
		return 0
	}
	id, _ := strconv.ParseInt(f[1], 10, 64)
	return id
}

// restartScheduler: the scheduler process crashed; a new incarnation starts from nothing but the API state (new cache,
// new informers, new action objects). Leftover goroutines of the dead incarnation (evict workers, status updater) can
// no longer change anything.
func (r *Run) restartScheduler() {
	old := r.Sched
	r.API.mu.Lock()
	r.API.Dead[old.Actor] = true
	r.API.mu.Unlock()
	old.Stop()
	synctest.Wait()
	r.API.Flush()
	r.schedEpoch++
	nu := NewSchedActor(r.API, r.S.Config, r, fmt.Sprintf("scheduler#%d", r.schedEpoch+1))
	nu.Obs.mu.Lock()
	nu.Obs.Decisions = append([]Decision(nil), old.Obs.Decisions...)
	nu.Obs.mu.Unlock()
	r.Sched = nu
	synctest.Wait()
	r.Probe("scheduler_restarted_after_crash")
}
