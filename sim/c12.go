package kaisim

// C12: BindRequest hand-off between the real scheduler and the real binder.

import (
	"fmt"
	"sort"
	"strings"
	"time"

	corev1 "k8s.io/api/core/v1"

	bindv1alpha2 "github.com/NVIDIA/KAI-scheduler/pkg/apis/scheduling/v1alpha2"
	"github.com/NVIDIA/KAI-scheduler/pkg/scheduler/api/pod_info"
	"github.com/NVIDIA/KAI-scheduler/pkg/scheduler/framework"
)

// realBinder: environment op "rbinder". The simulator is the binder's work queue: every BindRequest
// that is not Succeeded is reconciled; a failed reconcile is retried (as controller-runtime would,
// error => requeue) up to op.N extra times with the requested back-off on the simulated clock.
func (r *Run) realBinder(op Op) {
	// the binder's real k8s-plugins wrapper (volume binding + dynamicresources, which writes the claim allocation /
	// reservation in DRA worlds), registered before gpusharing as cmd/binder does
	bopts := []string{"k8s-plugins"}
	if r.Binder == nil {
		r.Binder = NewBinderActor(r.API, 40*time.Second, bopts...)
		r.Binder.BindFail = r.S.BindFail
		r.brFailed = map[string]int{}
		r.brAttempts = map[string]int{}
	}
	retries := op.N
	if op.Arg != "" { // "mid:<k>": a scheduler cycle runs just before the k-th API call of the first reconcile reaching it
		var k int
		if _, err := fmt.Sscanf(op.Arg, "mid:%d", &k); err == nil && k > 0 {
			r.Binder.MidAt = k
			r.Binder.MidHook = func() {
				r.Probe("c12_cycle_during_reconcile")
				r.apply(Op{Kind: "cycle"})
			}
		}
	}
	defer func() {
		if r.Binder != nil {
			r.Binder.MidAt, r.Binder.MidHook = 0, nil
		}
	}()
	for round := 0; round <= retries; round++ {
		progressed := false
		for _, br := range r.API.BindRequests() {
			if br.Status.Phase == bindv1alpha2.BindRequestPhaseSucceeded || br.DeletionTimestamp != nil {
				continue
			}
			if round > 0 && br.Status.Phase != bindv1alpha2.BindRequestPhaseFailed {
				continue
			}
			key := string(br.UID) + "/" + br.Name
			if br.UID == "" {
				key = br.CreationTimestamp.String() + "/" + br.Name
			}
			if br.Status.Phase == "" && br.Status.FailedAttempts == 0 {
				r.brFailed[key] = 0 // a fresh request (the scheduler deleted the failed one and created a new one)
			}
			r.Binder.ResetCalls()
			createdBefore := r.brCreates(br.Name)
			wasTerminal := BRTerminallyFailed(br)
			res, err, crashed := r.Binder.Reconcile(br.Namespace, br.Name)
			if wasTerminal {
				// "retries a failing request at most BackoffLimit times ... after which the request is observably failed to the
				// scheduler": from then on the scheduler no longer charges the pod to the selected node, so the binder must not
				// act on the pod for this request any more
				r.Probe("rbinder_reconcile_of_terminally_failed_request")
				for _, c := range r.Binder.CallLog() {
					if c.Kind != "bindrequests" && (c.Verb == "create" || c.Verb == "patch" || c.Verb == "update" || c.Verb == "delete") {
						lim := "nil"
						if br.Spec.BackoffLimit != nil {
							lim = fmt.Sprint(*br.Spec.BackoffLimit)
						}
						r.Fail("C12", "attempt_after_terminal_failure", "BindRequest %s is terminally failed (phase %q, failedAttempts %d, backoffLimit %s: the scheduler treats the pod as pending again) but a further reconcile still acts on the pod: %s", br.Name, br.Status.Phase, br.Status.FailedAttempts, lim, c.String())
						break
					}
				}
			}
			if r.brCreates(br.Name) != createdBefore {
				// a scheduler cycle that ran while this reconcile was in flight deleted the request and created a new one
				// with the same name: the attempt's outcome says nothing about the new request
				r.Probe("rbinder_request_replaced_during_reconcile")
				r.brFailed[key] = 0
				continue
			}
			r.brAttempts[key]++
			r.Probe("rbinder_reconciles")
			progressed = true
			if crashed > 0 {
				r.Probe("rbinder_crashed")
				r.Binder = NewBinderActor(r.API, 40*time.Second, bopts...)
				r.Binder.BindFail = r.S.BindFail
				_ = r.Binder.Sync()
				continue
			}
			// a failed attempt is recognised by its effect (the pod is still unbound and the request did not succeed), not by
			// the error value: the reconciler swallows the error when it decides that the status needs no update
			failedNow := err != nil
			if wasTerminal {
				continue // judged above: not an attempt
			}
			if c := getBR(r.API, br.Name); c != nil && c.Status.Phase != bindv1alpha2.BindRequestPhaseSucceeded {
				if p := r.API.Pod(br.Namespace, br.Spec.PodName); p != nil && p.Spec.NodeName == "" && p.DeletionTimestamp == nil {
					failedNow = true
				}
			}
			if failedNow {
				r.brFailed[key]++
				r.Probe("rbinder_failed_reconciles")
				if r.brFailed[key] >= 2 {
					r.Probe("rbinder_repeated_failure_same_request")
					if c := getBR(r.API, br.Name); c != nil && c.Spec.BackoffLimit != nil && *c.Spec.BackoffLimit >= 2 {
						r.Probe("rbinder_repeated_failure_with_limit_ge2")
					}
				}
				cur := getBR(r.API, br.Name)
				if cur != nil {
					// persisted attempt count = failed attempts so far (capped by the limit)
					want := int32(r.brFailed[key])
					if cur.Spec.BackoffLimit != nil && want > *cur.Spec.BackoffLimit {
						want = *cur.Spec.BackoffLimit
					}
					if cur.Spec.BackoffLimit != nil && cur.Status.FailedAttempts != want {
						r.Fail("C12", "failed_attempts_not_persisted", "BindRequest %s (backoffLimit %d) failed %d times but status.failedAttempts=%d after the status update", cur.Name, *cur.Spec.BackoffLimit, r.brFailed[key], cur.Status.FailedAttempts)
					}
					if cur.Status.Phase != bindv1alpha2.BindRequestPhaseFailed {
						r.Fail("C12", "failure_not_reported", "BindRequest %s failed (%v) but its phase is %q", cur.Name, err, cur.Status.Phase)
					}
					if cur.Spec.BackoffLimit != nil && int32(r.brFailed[key]) >= *cur.Spec.BackoffLimit && !BRTerminallyFailed(cur) {
						r.Fail("C12", "not_terminal_after_limit", "BindRequest %s failed %d times (backoffLimit %d) but is not observably failed to the scheduler (phase %q failedAttempts %d)", cur.Name, r.brFailed[key], *cur.Spec.BackoffLimit, cur.Status.Phase, cur.Status.FailedAttempts)
					}
				}
			}
			if res.RequeueAfter > 0 {
				time.Sleep(res.RequeueAfter)
			}
		}
		if !progressed {
			break
		}
		time.Sleep(time.Second)
	}
	// the binder's pod controller: reservation pods of groups without live sharers go away
	_ = r.Binder.Sync()
}

// HandoffOracle: BindRequest life-cycle rules over the history.
type HandoffOracle struct {
	BaseOracle
	seenCalls int
}

func (o *HandoffOracle) Prop() string { return "C12" }

func (o *HandoffOracle) AfterOp(r *Run, op Op) {
	h := r.API.History()
	for _, c := range h[o.seenCalls:] {
		if c.Actor == "scheduler" && c.Verb == "create" && c.Resource == "bindrequests" && c.Outcome == "err:AlreadyExists" {
			r.Fail("C12", "second_bindrequest", "cycle %d: the scheduler tried to create a second BindRequest for pod %s while one exists", c.Cycle, c.Name)
		}
	}
	o.seenCalls = len(h)
}

// SessionOpen: "from the moment the scheduler creates a BindRequest until it reaches a terminal outcome, every snapshot
// charges the pod's resources (including GPU groups) to the selected node".
func (o *HandoffOracle) SessionOpen(r *Run, ssn *framework.Session) {
	for _, br := range r.API.BindRequests() {
		if br.DeletionTimestamp != nil || br.Status.Phase == bindv1alpha2.BindRequestPhaseSucceeded || BRTerminallyFailed(br) {
			continue
		}
		pod := r.API.Pod(br.Namespace, br.Spec.PodName)
		if pod == nil || pod.DeletionTimestamp != nil || (pod.Spec.NodeName != "" && pod.Spec.NodeName != br.Spec.SelectedNode) {
			continue
		}
		if pod.Status.Phase == corev1.PodSucceeded || pod.Status.Phase == corev1.PodFailed {
			continue
		}
		node, ok := ssn.ClusterInfo.Nodes[br.Spec.SelectedNode]
		if !ok {
			continue // the node is gone: the request is about to be deleted
		}
		r.Probe("c12_live_request_seen_at_session_open")
		task, ok := node.PodInfos[pod_info.PodKey(pod)]
		if !ok {
			r.Fail("C12", "binding_pod_not_charged", "cycle %d: pod %s has a live BindRequest for node %s (phase %q) but the snapshot does not hold it on that node", r.cycle, pod.Name, br.Spec.SelectedNode, br.Status.Phase)
			continue
		}
		if len(br.Spec.SelectedGPUGroups) > 0 {
			want := append([]string(nil), br.Spec.SelectedGPUGroups...)
			got := append([]string(nil), task.GPUGroups...)
			sort.Strings(want)
			sort.Strings(got)
			if strings.Join(want, ",") != strings.Join(got, ",") {
				r.Fail("C12", "binding_pod_gpu_groups", "cycle %d: pod %s is being bound to node %s into GPU groups %v (BindRequest, phase %q) but the snapshot charges it to groups %v (pod labels: %v)", r.cycle, pod.Name, br.Spec.SelectedNode, want, br.Status.Phase, got, PodGroups(pod))
			}
		}
	}
}

func (o *HandoffOracle) Finish(r *Run) {
	// the script ends with fault-free rounds: everything must have settled
	nodes := map[string]bool{}
	for _, n := range r.API.Nodes() {
		nodes[n.Name] = true
	}
	for _, br := range r.API.BindRequests() {
		pod := r.API.Pod(br.Namespace, br.Spec.PodName)
		switch {
		case !nodes[br.Spec.SelectedNode]:
			r.Fail("C12", "request_for_deleted_node_survives", "BindRequest %s selects node %s which no longer exists", br.Name, br.Spec.SelectedNode)
		case BRTerminallyFailed(br) && !r.persistentFailure(br.Spec.PodName):
			r.Fail("C12", "terminally_failed_request_survives", "BindRequest %s is terminally failed (attempts %d) but was not deleted", br.Name, br.Status.FailedAttempts)
		case br.Status.Phase != bindv1alpha2.BindRequestPhaseSucceeded:
			if pod != nil && pod.DeletionTimestamp == nil && !r.persistentFailure(br.Spec.PodName) {
				r.Fail("C12", "request_not_settled", "BindRequest %s is still %q (failedAttempts %d) after the fault-free rounds", br.Name, br.Status.Phase, br.Status.FailedAttempts)
			}
		case pod != nil && pod.Spec.NodeName != br.Spec.SelectedNode:
			r.Fail("C12", "succeeded_but_elsewhere", "BindRequest %s Succeeded for node %s but the pod is on %q", br.Name, br.Spec.SelectedNode, pod.Spec.NodeName)
		}
	}
	r.Probe("c12_final_state_judged")
}

// persistentFailure: the pod's bind failures have not stopped: it always fails, or the transient failures the script
// plans for it are not used up yet (a terminally failed request is not retried by the binder: every further attempt
// needs a scheduler cycle that replaces the request)
func (r *Run) persistentFailure(pod string) bool {
	if r.S.BindFail[pod] >= 99 {
		return true
	}
	if r.Binder != nil {
		r.Binder.mu.Lock()
		defer r.Binder.mu.Unlock()
		return r.Binder.bindFailed[pod] < r.S.BindFail[pod]
	}
	return false
}

var _ = fmt.Sprintf
var _ corev1.Pod

// brCreates counts the BindRequests the scheduler has created for a pod so far (a request is named after its pod).
func (r *Run) brCreates(name string) int {
	n := 0
	for _, c := range r.API.History() {
		if c.Actor == "scheduler" && c.Verb == "create" && c.Resource == "bindrequests" && c.Name == name && c.Outcome == "ok" {
			n++
		}
	}
	return n
}
