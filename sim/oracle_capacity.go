package kaisim

// C01 / C02: capacity invariants evaluated on the API store only, after every simulator step.
// A violation is reported at the step where the excess of a (node, resource) first appears or
// grows, so that it is attributed to the step that caused it.

import (
	"fmt"
	"strings"
	"sort"

	corev1 "k8s.io/api/core/v1"

	"github.com/NVIDIA/KAI-scheduler/pkg/scheduler/framework"
)

type CapacityOracle struct {
	BaseOracle
	prop       string // "C01" or "C02"
	as         string // report violations under this property id instead (C12 conservation)
	prevExcess map[string]float64
	prevGroups map[string]map[string]bool // node -> groups known after the previous step
	groupsWhenFitting map[string]int      // node -> number of GPU groups when its pods last fitted its pod slots
}

func (o *CapacityOracle) Prop() string {
	if o.as != "" {
		return o.as
	}
	return o.prop
}

func (o *CapacityOracle) grew(key string, excess float64) bool {
	if o.prevExcess == nil {
		o.prevExcess = map[string]float64{}
	}
	prev := o.prevExcess[key]
	o.prevExcess[key] = excess
	return excess > prev+1e-9
}

// the scheduler-side DRA bookkeeping is watched too (only to classify API-level consequences, see AfterOp)
func (o *CapacityOracle) watchDRA(r *Run, ssn *framework.Session) {
	if o.prop != "C01" || !r.S.World.HasDRA() {
		return
	}
	if l, g, d := draTrackerMismatch(ssn); len(l)+len(g)+len(d) > 0 {
		r.draInconsistent = true
		if len(d) > 0 {
			r.draDouble = true
		}
	}
}
func (o *CapacityOracle) SessionOpen(r *Run, ssn *framework.Session)               { o.watchDRA(r, ssn) }
func (o *CapacityOracle) AfterAction(r *Run, name string, ssn *framework.Session) { o.watchDRA(r, ssn) }
func (o *CapacityOracle) Event(r *Run, ssn *framework.Session, ev *framework.Event, alloc bool) {
	o.watchDRA(r, ssn)
}

func (o *CapacityOracle) AfterOp(r *Run, op Op) {
	if o.prop == "C01" && r.S.World.HasDRA() {
		// claimed devices (DRA): every device belongs to at most one claim, counting the allocations live BindRequests
		// promise; a pod's claims hold devices of the pod's own node
		for _, pr := range draViolations(r.API) {
			if o.grew("dra/"+pr, 1) {
				r.Probe("dra_violation_seen")
				rule := "dra_device"
				if strings.Contains(pr, "selects node") || strings.Contains(pr, "but its claim") {
					// a claim that is already allocated on another node (a failed bind attempt leaves the claim allocated and
					// reserved, the pod is then placed elsewhere): the scheduler does not honour the allocation's node
					rule = "dra_device_claim_allocated_on_other_node"
				} else if r.draDouble || r.draInconsistent {
					// the scheduler's own DRA bookkeeping (claim cache vs allocated-device set) had already fallen apart
					// earlier in this run (C14 findings dra_device_*): the API-level consequence of that
					rule += "_after_inconsistent_view"
				}
				r.Fail(o.Prop(), rule, "%s after op %v", pr, op)
			}
		}
		r.Probe("dra_states_checked")
	}
	occ := Occupancy(r.API)
	names := make([]string, 0, len(occ))
	for n := range occ {
		names = append(names, n)
	}
	sort.Strings(names)
	if o.prevGroups == nil {
		o.prevGroups = map[string]map[string]bool{}
	}
	var cycleBinds map[string]int
	if op.Kind == "cycle" {
		cycleBinds = map[string]int{}
		for _, d := range r.Sched.Obs.CycleDecisions(r.cycle) {
			if d.Kind == "bind" && d.Err == "" {
				cycleBinds[d.Node]++
			}
		}
	}
	for _, name := range names {
		oc := occ[name]
		alloc := oc.Node.Status.Allocatable
		newGroups := 0
		for g := range oc.Groups {
			if !o.prevGroups[name][g] {
				newGroups++
			}
		}
		terminating := 0
		for _, p := range r.API.Pods() {
			if p.Spec.NodeName == name && p.DeletionTimestamp != nil && !podTerminated(p) {
				terminating++
			}
		}
		if o.prop == "C01" {
			cpu := alloc.Cpu().MilliValue()
			mem := alloc.Memory().Value()
			pods := alloc.Pods().Value()
			if ex := float64(oc.CPUm - cpu); o.grew(name+"/cpu", ex) && ex > 0 {
				r.Fail(o.Prop(), "cpu", "node %s cpu %dm > allocatable %dm after op %v; pods=%v", name, oc.CPUm, cpu, op, oc.Members)
			}
			if ex := float64(oc.MemB - mem); o.grew(name+"/mem", ex) && ex > 0 {
				r.Fail(o.Prop(), "memory", "node %s memory %d > allocatable %d after op %v; pods=%v", name, oc.MemB, mem, op, oc.Members)
			}
			if oc.Pods <= pods {
				if o.groupsWhenFitting == nil {
					o.groupsWhenFitting = map[string]int{}
				}
				o.groupsWhenFitting[name] = len(oc.Groups)
			}
			if ex := float64(oc.Pods - pods); o.grew(name+"/pods", ex) && ex > 0 {
				// attribute: is the excess explained by the pod slots of reservation pods of GPU groups
				// opened in this very cycle (known finding), or not?
				rule := "podslots"
				pendingRes := 0
				for g := range oc.Groups {
					if !oc.HasResPod[g] {
						pendingRes++
					}
				}
				if (op.Kind == "cycle" && newGroups > 0 && int(ex) <= newGroups) || (pendingRes > 0 && int(ex) <= pendingRes) {
					rule = "podslots_reservation"
				} else if opened := len(oc.Groups) - o.groupsWhenFitting[name]; (opened > 0 && int(ex) <= opened) || (op.Kind == "rbinder" && int(ex) <= len(oc.Groups)) {
					// every slot in excess is the reservation pod of a GPU group opened since the node last fitted its pods
					// (the groups may have been opened by several cycles, e.g. one of them in the middle of a bind: with a cycle
					// nested in a binder step the node fits again as soon as the slots of its reservation pods are left out)
					rule = "podslots_reservation"
				}
				r.Fail(o.Prop(), rule, "node %s pod slots %d > allocatable %d after op %v; pods=%v groups=%d new_groups_this_cycle=%d binds_this_cycle=%d terminating=%d",
					name, oc.Pods, pods, op, oc.Members, len(oc.Groups), newGroups, cycleBinds[name], terminating)
			}
			gpus := nodeGPUCount(oc.Node)
			if ex := float64(oc.GPUs + int64(len(oc.Groups)) - gpus); o.grew(name+"/gpus", ex) && ex > 0 {
				r.Fail(o.Prop(), "gpus", "node %s whole GPUs %d + shared devices %d > GPU count %d after op %v; pods=%v", name, oc.GPUs, len(oc.Groups), gpus, op, oc.Members)
			}
			for _, k := range sortedKeys(oc.Ext) {
				q := alloc[corev1.ResourceName(k)]
				if ex := float64(oc.Ext[k] - q.Value()); o.grew(name+"/"+k, ex) && ex > 0 {
					r.Fail(o.Prop(), "extended", "node %s %s %d > allocatable %d after op %v", name, k, oc.Ext[k], q.Value(), op)
				}
			}
		}
		if o.prop == "C02" {
			gpus := nodeGPUCount(oc.Node)
			if ex := float64(oc.GPUs + int64(len(oc.Groups)) - gpus); o.grew(name+"/devices", ex) && ex > 0 {
				r.Fail(o.Prop(), "devices", "node %s whole GPUs %d + shared devices %d > GPU count %d after op %v; pods=%v", name, oc.GPUs, len(oc.Groups), gpus, op, oc.Members)
			}
			gm, hasMem := nodeGPUMem(oc.Node)
			for _, g := range sortedKeys(oc.Groups) {
				grp := oc.Groups[g]
				if len(grp.Sharers) > 1 {
					r.Probe("group_shared_by_2plus")
				}
				if hasMem {
					if ex := grp.MemMi - float64(gm); o.grew(name+"/gm/"+g, ex) && !almostLE(grp.MemMi, float64(gm)) {
						r.Fail(o.Prop(), "group_memory", "node %s group %s memory %.1f > device memory %d; sharers=%v after op %v", name, g, grp.MemMi, gm, grp.Sharers, op)
					}
				}
				if ex := grp.Portion - 1.0; o.grew(name+"/gp/"+g, ex) && !almostLE(grp.Portion, 1.0) {
					r.Fail(o.Prop(), "group_portion", "node %s group %s portions %.4f > 1; sharers=%v after op %v", name, g, grp.Portion, grp.Sharers, op)
				}
			}
		}
		gs := map[string]bool{}
		for g := range oc.Groups {
			gs[g] = true
		}
		o.prevGroups[name] = gs
	}
	if o.prop == "C02" {
		// a pod asking N devices is attached to N distinct groups
		for _, p := range r.API.Pods() {
			if podTerminated(p) || IsReservationPod(p) {
				continue
			}
			d := PodDemand(p)
			if !d.Shared {
				continue
			}
			var groups []string
			for _, br := range r.API.BindRequests() {
				if br.Spec.PodName == p.Name && !BRTerminallyFailed(br) {
					groups = br.Spec.SelectedGPUGroups
				}
			}
			if groups == nil {
				if p.Spec.NodeName == "" {
					continue
				}
				groups = PodGroups(p)
			}
			seen := map[string]bool{}
			for _, g := range groups {
				if seen[g] {
					r.Fail(o.Prop(), "distinct_devices", "pod %s attached twice to group %s", p.Name, g)
				}
				seen[g] = true
			}
			if int64(len(groups)) != d.Devices {
				r.Fail(o.Prop(), "device_count", "pod %s asks %d shared devices but is attached to %d groups %v", p.Name, d.Devices, len(groups), groups)
			}
		}
	}
}

func (o *CapacityOracle) String() string { return fmt.Sprintf("capacity(%s)", o.prop) }
