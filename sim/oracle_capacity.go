package kaisim

// C01 / C02: capacity invariants evaluated on the API store only, after every simulator step.

import (
	"fmt"
	"sort"

	corev1 "k8s.io/api/core/v1"
)

type CapacityOracle struct {
	BaseOracle
	prop string // "C01" or "C02"
}

func (o *CapacityOracle) Prop() string { return o.prop }

func (o *CapacityOracle) AfterOp(r *Run, op Op) {
	occ := Occupancy(r.API)
	names := make([]string, 0, len(occ))
	for n := range occ {
		names = append(names, n)
	}
	sort.Strings(names)
	for _, name := range names {
		oc := occ[name]
		alloc := oc.Node.Status.Allocatable
		if o.prop == "C01" {
			cpu := alloc.Cpu().MilliValue()
			mem := alloc.Memory().Value()
			pods := alloc.Pods().Value()
			if oc.CPUm > cpu {
				r.Fail("C01", "cpu", "node %s cpu %dm > allocatable %dm after op %v; pods=%v", name, oc.CPUm, cpu, op, oc.Members)
			}
			if oc.MemB > mem {
				r.Fail("C01", "memory", "node %s memory %d > allocatable %d after op %v; pods=%v", name, oc.MemB, mem, op, oc.Members)
			}
			if oc.Pods > pods {
				r.Fail("C01", "podslots", "node %s pod slots %d > allocatable %d after op %v; pods=%v groups=%d", name, oc.Pods, pods, op, oc.Members, len(oc.Groups))
			}
			gpus := nodeGPUCount(oc.Node)
			if oc.GPUs+int64(len(oc.Groups)) > gpus {
				r.Fail("C01", "gpus", "node %s whole GPUs %d + shared devices %d > GPU count %d after op %v; pods=%v", name, oc.GPUs, len(oc.Groups), gpus, op, oc.Members)
			}
			for k, v := range oc.Ext {
				q := alloc[corev1.ResourceName(k)]
				if v > q.Value() {
					r.Fail("C01", "extended", "node %s %s %d > allocatable %d after op %v", name, k, v, q.Value(), op)
				}
			}
		}
		if o.prop == "C02" {
			gpus := nodeGPUCount(oc.Node)
			if oc.GPUs+int64(len(oc.Groups)) > gpus {
				r.Fail("C02", "devices", "node %s whole GPUs %d + shared devices %d > GPU count %d after op %v", name, oc.GPUs, len(oc.Groups), gpus, op)
			}
			gm, hasMem := nodeGPUMem(oc.Node)
			gs := make([]string, 0, len(oc.Groups))
			for g := range oc.Groups {
				gs = append(gs, g)
			}
			sort.Strings(gs)
			for _, g := range gs {
				grp := oc.Groups[g]
				if len(grp.Sharers) > 1 {
					r.Probe("group_shared_by_2plus")
				}
				if hasMem {
					if !almostLE(grp.MemMi, float64(gm)) {
						r.Fail("C02", "group_memory", "node %s group %s memory %.1f > device memory %d; sharers=%v after op %v", name, g, grp.MemMi, gm, grp.Sharers, op)
					}
				}
				if !almostLE(grp.Portion, 1.0) {
					r.Fail("C02", "group_portion", "node %s group %s portions %.4f > 1; sharers=%v after op %v", name, g, grp.Portion, grp.Sharers, op)
				}
			}
		}
	}
	if o.prop == "C02" {
		// a pod asking N devices is attached to N distinct groups
		for _, p := range r.API.Pods() {
			if podTerminated(p) || IsReservationPod(p) {
				continue
			}
			d := PodDemand(p)
			if !d.Shared {
				continue
			}
			groups := PodGroups(p)
			if p.Spec.NodeName == "" {
				groups = nil
				for _, br := range r.API.BindRequests() {
					if br.Spec.PodName == p.Name && !BRTerminallyFailed(br) {
						groups = br.Spec.SelectedGPUGroups
					}
				}
				if groups == nil {
					continue
				}
			}
			seen := map[string]bool{}
			for _, g := range groups {
				if seen[g] {
					r.Fail("C02", "distinct_devices", "pod %s attached twice to group %s", p.Name, g)
				}
				seen[g] = true
			}
			if int64(len(groups)) != d.Devices {
				r.Fail("C02", "device_count", "pod %s asks %d shared devices but is attached to %d groups %v", p.Name, d.Devices, len(groups), groups)
			}
		}
	}
}

func (o *CapacityOracle) String() string { return fmt.Sprintf("capacity(%s)", o.prop) }
